"""C05 — tracing keeps recording after an exception inside traced code.

Leg A (E1, explicit-state BFS on the real ExecutionTracer): events are tracer
callbacks with benign and with raising operands (comparison / truthiness /
membership operators that raise, context-manager bodies that raise the way an
observer would); the driver catches the exception exactly as a ``try/except``
in the SUT would. Invariants on every transition: I1 the enabled flag is what it
was before the event; I2 a following benign line / predicate event is recorded.

Leg B (real pipeline): an instrumented module whose functions run a raising
operation inside ``try/except`` followed by further lines and branches is driven
through the real TestCaseExecutor for every sequence of <= k calls; reported
line coverage must equal the lines CPython executed (sys.settrace on the
uninstrumented source), reported predicate outcomes must cover the branch after
the handler, and the tracer's enabled state after each statement must equal the
state before it.
"""

from __future__ import annotations

import collections
import itertools
import sys

ID = "C05"
LEVEL = "model_checking"


# ----------------------------------------------------------------- leg A
class _Abort(BaseException):
    """Not an ``Exception``: what ``sys.exit()`` / Ctrl-C / a framework's control-flow signal look like."""


class _Raises:
    def __init__(self, which, exc=ValueError):
        self.which = which
        self.exc = exc

    def __eq__(self, other):
        if "eq" in self.which:
            raise self.exc("eq")
        return NotImplemented

    __hash__ = None

    def __lt__(self, other):
        if "lt" in self.which:
            raise self.exc("lt")
        return NotImplemented

    def __bool__(self):
        if "bool" in self.which:
            raise self.exc("bool")
        return True

    def __contains__(self, item):
        if "contains" in self.which:
            raise self.exc("contains")
        return False


class _LenRaises:
    def __init__(self, exc=ValueError):
        self.exc = exc

    def __len__(self):
        raise self.exc("len")


def tracer_events():
    from pynguin.instrumentation import PynguinCompare as C

    def ctx_raise(t):
        with t.temporarily_disable():
            raise ValueError("observer")

    def ctx_nested_raise(t):
        with t.temporarily_disable():
            with t.temporarily_enable():
                raise ValueError("observer")

    def ctx_enable_raise(t):
        with t.temporarily_enable():
            raise ValueError("observer")

    def ctx_abort(t):
        with t.temporarily_disable():
            raise _Abort("observer")

    return {
        # benign
        "line0": (False, lambda t: t.track_line_visit(0)),
        "line1": (False, lambda t: t.track_line_visit(1)),
        "cmp_ok": (False, lambda t: t.executed_compare_predicate(1, 2, 0, C.LT)),
        "bool_ok": (False, lambda t: t.executed_bool_predicate(True, 1)),
        "exc_ok": (False, lambda t: t.executed_exception_match(ValueError(), ValueError, 3)),
        "code_ok": (False, lambda t: t.executed_code_object(0)),
        # raising (the operand's operator raises, as it would in the SUT itself)
        "eq_raises": (True, lambda t: t.executed_compare_predicate(_Raises("eq"), 1, 0, C.EQ)),
        "ne_raises": (True, lambda t: t.executed_compare_predicate(_Raises("eq"), 1, 0, C.NE)),
        "lt_raises": (True, lambda t: t.executed_compare_predicate(_Raises("lt"), 1, 0, C.LT)),
        "bool_raises": (True, lambda t: t.executed_bool_predicate(_Raises("bool"), 1)),
        "len_raises": (True, lambda t: t.executed_bool_predicate(_LenRaises(), 1)),
        "in_raises": (True, lambda t: t.executed_compare_predicate(1, _Raises("contains"), 2, C.IN)),
        "inpres_raises": (True, lambda t: t.executed_in_presence_predicate(1, _Raises("contains"), 2)),
        "ctx_disable_raises": (True, ctx_raise),
        "ctx_nested_raises": (True, ctx_nested_raise),
        "ctx_enable_raises": (True, ctx_enable_raise),
        # the same with exceptions that are BaseException but not Exception (SystemExit from sys.exit() in a
        # user operator, a custom BaseException): the SUT may catch those as well
        "eq_exits": (True, lambda t: t.executed_compare_predicate(_Raises("eq", SystemExit), 1, 0, C.EQ)),
        "lt_aborts": (True, lambda t: t.executed_compare_predicate(_Raises("lt", _Abort), 1, 0, C.LT)),
        "bool_exits": (True, lambda t: t.executed_bool_predicate(_Raises("bool", SystemExit), 1)),
        "len_aborts": (True, lambda t: t.executed_bool_predicate(_LenRaises(_Abort), 1)),
        "in_exits": (True, lambda t: t.executed_compare_predicate(1, _Raises("contains", SystemExit), 2, C.IN)),
        "inpres_aborts": (True, lambda t: t.executed_in_presence_predicate(1, _Raises("contains", _Abort), 2)),
        "ctx_disable_aborts": (True, ctx_abort),
    }


def canon_tracer(t):
    tr = t.get_trace()
    return (not t.is_disabled(), tuple(sorted(tr.covered_line_ids)),
            tuple(sorted((k, min(v, 2)) for k, v in tr.executed_predicates.items())),
            tuple(sorted(tr.executed_code_objects)))


def leg_a(ctx, depth):
    from pynguin.instrumentation.tracer import ExecutionTracer

    events = tracer_events()
    names = list(events)

    def build(hist):
        t = ExecutionTracer()
        t.__enter__()
        outcomes = []
        for name in hist:
            try:
                events[name][1](t)
                outcomes.append("ok")
            except (Exception, SystemExit, _Abort) as exc:  # noqa: BLE001  (the SUT's try/except)
                outcomes.append(type(exc).__name__)
        return t, outcomes

    seen = set()
    t0, _ = build([])
    seen.add(canon_tracer(t0))
    ctx.distinct("states", ("A", canon_tracer(t0)))
    frontier = collections.deque([[]])
    raised_any = set()
    while frontier:
        hist = frontier.popleft()
        if len(hist) >= depth:
            continue
        for name in names:
            t, _ = build(hist)
            enabled_before = not t.is_disabled()
            before = canon_tracer(t)
            try:
                events[name][1](t)
                outcome = "ok"
            except (Exception, SystemExit, _Abort) as exc:  # noqa: BLE001
                outcome = type(exc).__name__
                raised_any.add(name)
            ctx.count("transitions")
            ctx.count("traces_validated_against_impl")
            enabled_after = not t.is_disabled()
            data = {"leg": "A", "history": hist + [name]}
            if enabled_after != enabled_before:
                ctx.violation(f"C05|tracer|{name}|enabled:{enabled_before}->{enabled_after}",
                              f"after {hist + [name]} (outcome {outcome}) enabled flag changed",
                              data, rank=len(hist) + 1)
            # I2: subsequent benign events must be recorded (probe on a rebuilt copy)
            if enabled_before:
                tp, _ = build(hist + [name])
                tp.track_line_visit(7)
                from pynguin.instrumentation import PynguinCompare as C
                try:
                    tp.executed_compare_predicate(3, 4, 9, C.LT)
                except Exception:  # noqa: BLE001
                    pass
                tr = tp.get_trace()
                if 7 not in tr.covered_line_ids:
                    ctx.violation(f"C05|tracer|{name}|later-line-not-recorded",
                                  f"after {hist + [name]} a later track_line_visit is dropped", data,
                                  rank=len(hist) + 1)
                if 9 not in tr.executed_predicates:
                    ctx.violation(f"C05|tracer|{name}|later-predicate-not-recorded",
                                  f"after {hist + [name]} a later predicate evaluation is dropped", data,
                                  rank=len(hist) + 1)
            k = canon_tracer(t)
            if k != before:
                ctx.distinct("events_with_effect", name)
            if k not in seen:
                seen.add(k)
                ctx.distinct("states", ("A", k))
                ctx.sample({"leg": "A", "history": hist + [name], "outcome": outcome,
                            "state": [k[0], list(k[1]), list(k[2])]}, every=5)
                frontier.append(hist + [name])
    ctx.require(len(raised_any) >= 8, f"vacuous: only {sorted(raised_any)} raised")
    ctx.note("legA_events", names)
    ctx.note("legA_depth", depth)


# ----------------------------------------------------------------- leg B
SUT = '''
class Bad:
    def __init__(self, mode="eq"):
        self.mode = mode
    def __eq__(self, other):
        if self.mode == "eq":
            raise ValueError("eq")
        return False
    __hash__ = None
    def __lt__(self, other):
        if self.mode == "lt":
            raise ValueError("lt")
        return True
    def __bool__(self):
        if self.mode == "bool":
            raise ValueError("bool")
        return True
    def __contains__(self, item):
        if self.mode == "contains":
            raise ValueError("contains")
        return False
    @property
    def attr(self):
        if self.mode == "attr":
            raise ValueError("attr")
        return 1


def guarded_eq(x):
    r = 0
    try:
        if x == 1:
            r = 1
    except ValueError:
        r = 2
    if r == 2:
        r += 10
    else:
        r += 20
    return r


def guarded_lt(x):
    r = 0
    try:
        if x < 1:
            r = 1
    except ValueError:
        r = 2
    for i in range(2):
        r += i
    return r


def guarded_bool(x):
    r = 0
    try:
        if x:
            r = 1
    except ValueError:
        r = 2
    while r < 4:
        r += 1
    return r


def guarded_in(x):
    r = 0
    try:
        if 1 in x:
            r = 1
    except (ValueError, TypeError):
        r = 2
    if r:
        r = -r
    return r


def guarded_attr(x):
    r = 0
    try:
        r = x.attr
    except (ValueError, AttributeError):
        r = 2
    if r > 1:
        r = 5
    return r


def plain(x):
    if x:
        return 1
    return 0
'''

CALLS = [
    ("guarded_eq", 'Bad("eq")'), ("guarded_eq", "1"), ("guarded_lt", 'Bad("lt")'),
    ("guarded_lt", "0"), ("guarded_bool", 'Bad("bool")'), ("guarded_bool", "0"),
    ("guarded_in", 'Bad("contains")'), ("guarded_in", "[1]"), ("guarded_in", "5"),
    ("guarded_attr", 'Bad("attr")'), ("guarded_attr", "7"), ("plain", "1"),
]


def _plain_lines(src, calls):
    """Lines CPython executes in the uninstrumented module for each call (sys.settrace)."""
    code = compile(src, "<c05_plain>", "exec")
    ns: dict = {}
    exec(code, ns)  # noqa: S102
    out = []
    for fn, arg in calls:
        lines = set()

        def tracer(frame, event, _arg, lines=lines):
            if frame.f_code.co_filename != "<c05_plain>":
                return None
            if event == "line":
                lines.add(frame.f_lineno)
            return tracer

        argv = eval(arg, ns)  # noqa: S307
        sys.settrace(tracer)
        try:
            try:
                ns[fn](argv)
            except Exception:  # noqa: BLE001
                pass
        finally:
            sys.settrace(None)
        out.append(lines)
    return out


def shard_b(col, metric_sets, seq_len):
    import tempfile
    import shutil
    import textwrap
    from mc import pyn

    src = textwrap.dedent(SUT)
    scratch = tempfile.mkdtemp(prefix="c05_", dir="/dev/shm")
    try:
        for metrics in metric_sets:
            pyn.reset_config()
            try:
                probe = pyn.Sut(src, scratch, name="c05_probe_" + "_".join(m.lower() for m in metrics),
                                coverage=metrics)
                probe.__enter__()
                probe.__exit__(None, None, None)
            except Exception as exc:  # noqa: BLE001
                col.violation(f"C05|instrument|{'+'.join(metrics)}|raises:{type(exc).__name__}",
                              f"instrumenting the leg-B module failed: {exc!r}",
                              {"leg": "B", "metrics": list(metrics), "calls": []}, rank=0)
                col.count("transitions")
                continue
            with pyn.Sut(src, scratch, name="c05_sut_" + "_".join(m.lower() for m in metrics),
                         coverage=metrics) as sut:
                alias = sut.name + "_"
                # Only lines of the guarded_* / plain functions are compared: the operand class's
                # dunder bodies run inside the tracer's own (untraced) evaluation when they raise,
                # which is "during", not "after", the exception and therefore outside this property.
                import ast as _ast
                fn_lines = set()
                for n in _ast.parse(src).body:
                    if isinstance(n, _ast.FunctionDef):
                        fn_lines |= set(range(n.lineno, n.end_lineno + 1))
                coverable = {m.line_number for m in sut.props.existing_lines.values()} & fn_lines
                import_lines = set(sut.props.lineids_to_linenos(sut.tracer.import_trace.covered_line_ids))
                executor = sut.executor()
                flags = []
                orig = executor._exec_statement  # noqa: SLF001

                def wrapped(node, namespace, orig=orig, flags=flags, sut=sut):
                    before = sut.tracer.is_disabled()
                    r = orig(node, namespace)
                    flags.append((before, sut.tracer.is_disabled()))
                    return r

                executor._exec_statement = wrapped  # noqa: SLF001
                seqs = [s for n in range(1, seq_len + 1) for s in itertools.product(range(len(CALLS)), repeat=n)]
                for seq in seqs:
                    calls = [CALLS[i] for i in seq]
                    stmts = [f"var_{j} = {alias}.{fn}({alias}.{arg})" if arg.startswith("Bad")
                             else f"var_{j} = {alias}.{fn}({arg})" for j, (fn, arg) in enumerate(calls)]
                    flags.clear()
                    result = executor.execute(pyn.test_case(*stmts))
                    col.count("transitions", len(stmts))
                    col.count("traces_validated_against_impl")
                    col.distinct("states", ("B", tuple(metrics), seq))
                    data = {"leg": "B", "metrics": list(metrics), "calls": [list(c) for c in calls]}
                    label = "+".join(fn for fn, _ in calls[-1:]) + "(" + calls[-1][1].split("(")[0] + ")"
                    if result.timeout or result.has_test_exceptions():
                        col.violation(f"C05|executor|{label}|unexpected-exception-or-timeout",
                                      f"{stmts}: {result.exceptions} timeout={result.timeout}", data,
                                      rank=len(seq))
                        continue
                    for j, (b, a) in enumerate(flags):
                        if a != b:
                            fn, arg = calls[j]
                            col.violation(f"C05|executor|{fn}({arg.split('(')[0]})|enabled-state-changed-by-statement",
                                          f"statement {j} of {stmts}: disabled {b} -> {a}", data, rank=len(seq))
                    if "LINE" in metrics:
                        expect = set()
                        for lines in _plain_lines(src, calls):
                            expect |= lines
                        expect &= coverable
                        got = set(sut.props.lineids_to_linenos(result.execution_trace.covered_line_ids))
                        got -= (import_lines - expect)
                        got &= fn_lines
                        col.distinct("outcomes", tuple(sorted(got)))
                        if got != expect:
                            missing, extra = sorted(expect - got), sorted(got - expect)
                            fn, arg = calls[-1]
                            # blame the first call whose own run shows the loss
                            col.violation(
                                f"C05|lines|{'missing' if missing else 'extra'}-after-{_first_raiser(calls)}",
                                f"{stmts}: missing lines {missing} extra {extra}", data, rank=len(seq))
                    if "BRANCH" in metrics:
                        tr = result.execution_trace
                        # every called function has a branch after its handler: it must have been evaluated
                        for fn, arg in calls:
                            pids = [pid for pid, meta in sut.props.existing_predicates.items()
                                    if sut.props.existing_code_objects[meta.code_object_id]
                                    .code_object.co_name == fn]
                            post = max(pids, key=lambda p: sut.props.existing_predicates[p].line_no)
                            if post not in tr.executed_predicates:
                                col.violation(f"C05|branches|post-handler-predicate-missing-after-{fn}({arg.split('(')[0]})",
                                              f"{stmts}: predicate at line "
                                              f"{sut.props.existing_predicates[post].line_no} not recorded",
                                              data, rank=len(seq))
    finally:
        shutil.rmtree(scratch, ignore_errors=True)


def _first_raiser(calls):
    for fn, arg in calls:
        if arg.startswith("Bad"):
            return f"{fn}({arg})"
    return "no-raiser"


def run(ctx):
    from mc import par

    leg_a(ctx, 3 if ctx.quick else 4)
    metric_sets = [("LINE",), ("BRANCH",), ("BRANCH", "LINE"), ("BRANCH", "LINE", "CHECKED")]
    seq_len = 2 if ctx.quick else 3
    par.run_shards("props.c05_tracing_survives:shard_b", [([m], seq_len) for m in metric_sets],
                   ctx.workers, ctx)
    ctx.require(len(ctx.col.sets.get("outcomes", ())) > 10, "vacuous: too few distinct coverage outcomes")
    ctx.require(len(ctx.col.sets.get("events_with_effect", ())) >= 6, "vacuous: tracer events without effect")
    ctx.exhaustive = True
    ctx.rule = ("leg A: BFS over all sequences of 16 tracer events (6 benign, 10 raising) to the stated depth "
                "with canonical state (enabled, lines, predicate counts<=2, code objects); leg B: every sequence "
                f"of <= {seq_len} calls from a 12-call alphabet through the real executor under 4 metric subsets")
    ctx.assume("exceptions raised by operands are caught by the SUT (driver catches them)")


def replay(ctx, data):
    if data["leg"] == "A":
        leg_a(ctx, len(data["history"]))
    else:
        from mc.ctx import Collector
        col = Collector()
        shard_b(col, [tuple(data["metrics"])], len(data["calls"]))
        ctx.merge(col)
