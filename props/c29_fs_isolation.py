"""C29 - filesystem isolation never modifies or deletes pre-existing paths.

Explicit-state search (E1) over the real ``FilesystemIsolation``: a state is the
history of filesystem operations that reaches it. Every execution builds a fresh
sandbox tree (file ``a``="A", dir ``d`` with file ``d/b``="B", empty dir ``e``,
symlink ``l -> a``, file ``newer``="N" whose name extends the creatable ``new``) under the run's scratch directory, changes into it, enters
ONE ``with FilesystemIsolation():`` block (constructed exactly as
``TestCaseExecutor._execute_test_case`` does, with
``configuration.filesystem_isolation = True``), performs the history through the
patched public APIs (operations that raise are part of the history, the code
under test would catch them), takes the canonical state
``(tree snapshot, sorted(_created))`` and leaves the block.

Oracle (from the statement): after the block every path of the pre-state exists
with the same type, content and link target, every other path is gone, and
``os.environ``, ``tempfile.tempdir`` and every attribute the isolation patches are
the objects captured before entering. What is wrong after the block is a function
of the canonical state, so a transition ``s --op--> s'`` is blamed for exactly the
effects of ``s'`` that ``s`` did not have.

The search is a level-synchronous global BFS: the frontier of level k is spread
over fresh worker processes (level 1 = one shard per first operation), the
parent merges the canonical states and keeps the lexicographically least history
as representative.
"""

from __future__ import annotations

import builtins
import io
import os
import random
import shutil
import tempfile
from pathlib import Path

ID = "C29"
LEVEL = "model_checking"

# originals for the harness' own bookkeeping (module import happens outside any isolation block)
_IO_OPEN = io.open
_RMTREE = shutil.rmtree
_OS = {n: getattr(os, n) for n in ("mkdir", "symlink", "scandir", "readlink", "listdir", "lstat",
                                   "unlink", "rmdir", "chdir", "getcwd", "makedirs")}

# "newer" is a pre-existing file whose NAME starts with the name of a path the history can create ("new"):
# name-based (not component-based) containment tests must not confuse the two
PATHS = ("a", "d", "d/b", "e", "l", "new", "new/x", "newer")
KIND = {"a": "preexisting-file", "d/b": "preexisting-file", "d": "preexisting-dir",
        "e": "preexisting-dir", "l": "symlink", "new": "new", "new/x": "new-in-new",
        "newer": "preexisting-file"}

OSFLAGS = {
    "os.open-rdonly": os.O_RDONLY,
    "os.open-wronly": os.O_WRONLY,
    "os.open-creat": os.O_WRONLY | os.O_CREAT,
    "os.open-creat-trunc": os.O_WRONLY | os.O_CREAT | os.O_TRUNC,
    "os.open-append": os.O_WRONLY | os.O_APPEND,
    "os.open-creat-excl": os.O_WRONLY | os.O_CREAT | os.O_EXCL,
}
SINGLE = (
    "open-r", "open-w", "open-a", "open-x", "open-r+", "Path.open-w",
    *OSFLAGS,
    "Path.write_text", "Path.write_bytes", "Path.touch", "Path.mkdir", "Path.mkdir-parents",
    "Path.unlink", "Path.rmdir",
    "os.mkdir", "os.makedirs", "os.makedirs-exist_ok", "os.remove", "os.unlink", "os.rmdir",
    "shutil.rmtree", "shutil.rmtree-ignore_errors",
)
DOUBLE = (
    "os.rename", "os.replace", "Path.rename", "Path.replace",
    "shutil.copy", "shutil.copy2", "shutil.copyfile", "shutil.copytree",
    "shutil.copytree-dirs_exist_ok", "shutil.move",
)
CHDIR_TARGETS = ("d", "e")  # pre-existing directories of the sandbox
READONLY = ("open-r", "os.open-rdonly")  # cannot change the canonical state by design


def all_ops():
    ops = [(k, p, None) for k in SINGLE for p in PATHS]
    ops += [(k, p, q) for k in DOUBLE for p in PATHS for q in PATHS]
    return ops


def _apply(kind, p, q):
    """One operation through the public (patched) API; names are resolved at call time."""
    if kind.startswith("open-"):
        m = kind[5:]
        f = open(p, m)  # noqa: PTH123,SIM115 - builtins.open is what the SUT would call
        try:
            if m == "r":
                f.read()
            else:
                f.write("X")
        finally:
            f.close()
    elif kind == "Path.open-w":
        with Path(p).open("w") as f:
            f.write("X")
    elif kind in OSFLAGS:
        fd = os.open(p, OSFLAGS[kind], 0o644)
        try:
            if kind != "os.open-rdonly":
                os.write(fd, b"X")
        finally:
            os.close(fd)
    elif kind == "Path.write_text":
        Path(p).write_text("X")
    elif kind == "Path.write_bytes":
        Path(p).write_bytes(b"X")
    elif kind == "Path.touch":
        Path(p).touch()
    elif kind == "Path.mkdir":
        Path(p).mkdir()
    elif kind == "Path.mkdir-parents":
        Path(p).mkdir(parents=True, exist_ok=True)
    elif kind == "Path.unlink":
        Path(p).unlink()
    elif kind == "Path.rmdir":
        Path(p).rmdir()
    elif kind == "os.mkdir":
        os.mkdir(p)
    elif kind == "os.makedirs":
        os.makedirs(p)
    elif kind == "os.makedirs-exist_ok":
        os.makedirs(p, exist_ok=True)
    elif kind == "os.remove":
        os.remove(p)
    elif kind == "os.unlink":
        os.unlink(p)
    elif kind == "os.rmdir":
        os.rmdir(p)
    elif kind == "shutil.rmtree":
        shutil.rmtree(p)
    elif kind == "shutil.rmtree-ignore_errors":
        shutil.rmtree(p, ignore_errors=True)
    elif kind == "os.rename":
        os.rename(p, q)
    elif kind == "os.replace":
        os.replace(p, q)
    elif kind == "Path.rename":
        Path(p).rename(q)
    elif kind == "Path.replace":
        Path(p).replace(q)
    elif kind == "shutil.copy":
        shutil.copy(p, q)
    elif kind == "shutil.copy2":
        shutil.copy2(p, q)
    elif kind == "shutil.copyfile":
        shutil.copyfile(p, q)
    elif kind == "shutil.copytree":
        shutil.copytree(p, q)
    elif kind == "shutil.copytree-dirs_exist_ok":
        shutil.copytree(p, q, dirs_exist_ok=True)
    elif kind == "shutil.move":
        shutil.move(p, q)
    elif kind == "os.chdir":  # chdir leg only; stays inside the sandbox
        if p not in CHDIR_TARGETS:
            raise AssertionError(p)
        os.chdir(p)
    else:
        raise AssertionError(kind)


def apply(ev):
    try:
        _apply(*ev)
        return "ok"
    except Exception as exc:  # noqa: BLE001 - the SUT would catch it; it is part of the history
        return type(exc).__name__


# ---------------------------------------------------------------- sandbox
def snapshot(root="."):
    """Sorted tuple of (relative path, type, content | link target) below the cwd."""
    out = []
    stack = [root]
    while stack:
        d = stack.pop()
        with _OS["scandir"](d) as it:
            entries = sorted(it, key=lambda e: e.name)
        for e in entries:
            rel = e.name if d == "." else f"{d}/{e.name}"
            if e.is_symlink():
                out.append((rel, "l", _OS["readlink"](rel)))
            elif e.is_dir(follow_symlinks=False):
                out.append((rel, "d", ""))
                stack.append(rel)
            elif e.is_file(follow_symlinks=False):
                with _IO_OPEN(rel, "rb") as fh:
                    out.append((rel, "f", fh.read().decode("latin-1")))
            else:
                out.append((rel, "?", ""))
    return tuple(sorted(out))


class Sandbox:
    """One directory below the run's scratch dir; the tree is rebuilt for every execution."""

    def __init__(self, scratch):
        self.scratch = os.path.realpath(scratch)
        if not (self.scratch.startswith(("/dev/shm/", tempfile.gettempdir() + "/"))
                and os.path.basename(self.scratch).startswith("c29_")):
            raise RuntimeError(f"refusing to use {self.scratch} as a sandbox root")
        self.base = os.path.join(self.scratch, f"w{os.getpid()}")
        self._saved = (os.getcwd(), os.environ.get("TMPDIR"), tempfile.tempdir)
        self.sb = os.path.join(self.base, "sb")
        self.tmp = os.path.join(self.base, "tmp")
        _OS["makedirs"](self.tmp, exist_ok=True)
        # the isolation's own TemporaryDirectory must live inside the scratch dir as well
        os.environ["TMPDIR"] = self.tmp
        tempfile.tempdir = None
        if tempfile.gettempdir() != self.tmp:
            raise RuntimeError("could not redirect tempfile into the scratch directory")

    def close(self):
        cwd0, env_tmp, td = self._saved
        os.chdir(cwd0)
        _RMTREE(self.base, ignore_errors=True)
        tempfile.tempdir = td
        if env_tmp is None:
            os.environ.pop("TMPDIR", None)
        else:
            os.environ["TMPDIR"] = env_tmp

    def reset(self):
        if os.path.lexists(self.sb):
            _RMTREE(self.sb)
        for leftover in _OS["listdir"](self.tmp):
            _RMTREE(os.path.join(self.tmp, leftover), ignore_errors=True)
        _OS["mkdir"](self.sb)
        with _IO_OPEN(os.path.join(self.sb, "a"), "w") as fh:
            fh.write("A")
        _OS["mkdir"](os.path.join(self.sb, "d"))
        with _IO_OPEN(os.path.join(self.sb, "d", "b"), "w") as fh:
            fh.write("B")
        _OS["mkdir"](os.path.join(self.sb, "e"))
        _OS["symlink"]("a", os.path.join(self.sb, "l"))
        with _IO_OPEN(os.path.join(self.sb, "newer"), "w") as fh:
            fh.write("N")


PATCHED = (
    [(os, n) for n in ("mkdir", "makedirs", "rename", "replace", "remove", "unlink", "rmdir", "open")]
    + [(shutil, n) for n in ("copyfile", "copy", "copy2", "copytree", "move", "rmtree")]
    + [(Path, n) for n in ("mkdir", "touch", "write_text", "write_bytes", "unlink", "rmdir",
                           "rename", "replace", "open")]
    + [(builtins, "open"), (io, "open")]
)


def _owner(obj):
    return obj.__name__ if obj is not Path else "Path"


def _load():
    import logging

    import pynguin.configuration as config
    from pynguin.utils import fs_isolation
    # "Failed to cleanup path" warnings of the isolation are not verdicts; the oracle looks at the tree
    logging.getLogger(fs_isolation.__name__).setLevel(logging.ERROR)
    return config, fs_isolation


def execute(sbx: Sandbox, hist):
    """Run one history in a fresh tree inside one isolation block.

    Returns (canon, effects, outcomes): canon = (tree inside the block, recorded-created set),
    effects = sorted tuple of (path-or-attribute, label) that the oracle finds wrong after the block.
    """
    config, fsi = _load()
    sbx.reset()
    cwd0 = _OS["getcwd"]()
    old_flag = config.configuration.filesystem_isolation
    config.configuration.filesystem_isolation = True
    cache = getattr(fsi, "_normalize_path_cached", None)
    if hasattr(cache, "cache_clear"):
        cache.cache_clear()  # keyed by relative path: must not leak between executions
    _OS["chdir"](sbx.sb)
    try:
        pre = snapshot()
        refs = [(o, n, getattr(o, n)) for (o, n) in PATCHED]
        env0 = dict(os.environ)
        td0 = tempfile.tempdir
        outcomes, inner, phase, raised = [], None, "enter", None
        try:
            with fsi.FilesystemIsolation() as iso:
                phase = "body"
                if not getattr(iso, "_enabled", True):
                    raise RuntimeError("isolation not enabled")
                for ev in hist:
                    outcomes.append(apply(ev))
                _OS["chdir"](sbx.sb)  # the chdir leg moves the cwd (inside the sandbox)
                created = getattr(iso, "_created", None)
                rel = tuple(sorted(os.path.relpath(p, sbx.sb) for p in created)) \
                    if created is not None else ("<no _created attribute>",)
                inner = (snapshot(), rel)
                phase = "exit"
        except Exception as exc:  # noqa: BLE001
            if phase == "body":
                raise
            raised = f"raises-on-{phase}:{type(exc).__name__}"
        _OS["chdir"](sbx.sb)
        effects = []
        # restoration of patched attributes (identity), environment and tempfile.tempdir
        for o, n, ref in refs:
            if getattr(o, n, None) is not ref:
                effects.append((f"{_owner(o)}.{n}", f"patch-not-restored:{_owner(o)}.{n}"))
                setattr(o, n, ref)
        if dict(os.environ) != env0:
            effects.append(("os.environ", "patch-not-restored:os.environ"))
            os.environ.clear()
            os.environ.update(env0)
        if tempfile.tempdir != td0:
            effects.append(("tempfile.tempdir", "patch-not-restored:tempfile.tempdir"))
            tempfile.tempdir = td0
        if raised:
            effects.append(("<block>", raised))
        post = snapshot()
        if _OS["listdir"](sbx.tmp):
            effects.append(("<isolation tmpdir>", "created-left-behind"))
    finally:
        _OS["chdir"](cwd0)
        config.configuration.filesystem_isolation = old_flag
    effects.extend(diff(pre, post))
    if inner is None:
        inner = (post, ("<block not completed>",))
    return inner, tuple(sorted(effects)), tuple(outcomes)


def diff(pre, post):
    a = {p: (t, c) for p, t, c in pre}
    b = {p: (t, c) for p, t, c in post}
    out = []
    for p, (t, c) in a.items():
        if p not in b:
            out.append((p, "deleted"))
            continue
        t2, c2 = b[p]
        if t2 != t:
            out.append((p, "type-changed"))
        elif t == "l" and c2 != c:
            out.append((p, "link-retargeted"))
        elif t == "f" and c2 != c:
            out.append((p, "truncated" if c.startswith(c2) else "content-changed"))
    out.extend((p, "created-left-behind") for p in b if p not in a)
    return out


# ---------------------------------------------------------------- reporting
def fingerprint(ev, label, dirty_prefix=False, cwd=""):
    """C29|<op>|<kind of the op's (destination) path>|<effect>.

    ``C29|any-op|any-target|<effect>|after-violation`` marks non-minimal counterexamples: the history
    before the last operation already violates the property (on other paths) and the last operation
    damages further paths; these are consequences and are not split by operation.
    """
    if ev is None:
        return f"C29|enter-exit|none|{label}"
    if dirty_prefix:
        return f"C29|any-op|any-target|{label}|after-violation"
    kind, p, q = ev
    target = os.path.normpath(os.path.join(cwd, q if q is not None else p))
    return f"C29|{kind}{'+chdir' if cwd else ''}|{kind_of(target)}|{label}"


def kind_of(rel):
    if rel in KIND and KIND[rel] not in ("new", "new-in-new"):
        return KIND[rel]
    parent = os.path.dirname(rel)
    return "new" if parent == "" or KIND.get(parent) == "preexisting-dir" else "new-in-new"


def describe(ev):
    if ev is None:
        return "empty block"
    kind, p, q = ev
    return f"{kind}({p!r})" if q is None else f"{kind}({p!r}, {q!r})"


def report(col, hist_evs, new_effects, dirty_prefix=False):
    last = hist_evs[-1] if hist_evs else None
    cwd = "".join(e[1] for e in hist_evs if e[0] == "os.chdir")  # at most one chdir per history
    by_label: dict[str, list[str]] = {}
    for path, label in new_effects:
        by_label.setdefault(label, []).append(path)
    for label, paths in sorted(by_label.items()):
        col.violation(
            fingerprint(last, label, dirty_prefix, cwd),
            f"inside one FilesystemIsolation block: {'; '.join(describe(e) for e in hist_evs) or '(nothing)'}"
            f" -> after the block {label}: {', '.join(sorted(paths))}",
            {"history": [list(e) for e in hist_evs]},
            rank=len(hist_evs))


def expand(col, sbx, ops, order, hist, want_states):
    """All transitions out of the state reached by ``hist`` (tuple of op indices)."""
    from mc.ctx import HarnessError
    prefix = [ops[i] for i in hist]
    base_canon, base_eff, _ = execute(sbx, prefix)
    again = execute(sbx, prefix)
    if (base_canon, base_eff) != again[:2]:
        raise HarnessError(f"non-deterministic execution of {prefix}")
    if not hist:
        col.distinct("states", base_canon)
        col.count("executions")
        if base_eff:
            report(col, [], base_eff)
    found = {base_canon: hist} if want_states else {}
    base_set = {path for path, _ in base_eff}  # paths (attributes) already wrong in the prefix state
    for i in order:
        ev = ops[i]
        canon, eff, outcomes = execute(sbx, prefix + [ev])
        col.count("transitions")
        col.count("executions")
        col.distinct("outcomes", (ev[0], outcomes[-1]))
        if outcomes[-1] == "ok":
            col.distinct("kinds_ok", ev[0])
        else:
            col.count("transitions_raising")
        if canon != base_canon:
            col.distinct("kinds_with_effect", ev[0])
            col.count("transitions_with_effect")
        new = [e for e in eff if e[0] not in base_set]
        if new:
            fps = {fingerprint(ev, lab, bool(base_eff)) for _, lab in new}
            if any(fp not in col.violations for fp in fps):
                # replay before believing it
                if execute(sbx, prefix + [ev])[:2] != (canon, eff):
                    raise HarnessError(f"violation did not replay: {prefix + [ev]}")
            report(col, prefix + [ev], new, dirty_prefix=bool(base_eff))
        if col.distinct("states", canon):
            col.sample({"history": [list(e) for e in prefix + [ev]], "outcomes": list(outcomes),
                        "tree_in_block": [list(x) for x in canon[0]], "created": list(canon[1]),
                        "wrong_after_block": [list(x) for x in eff]}, every=37)
        if want_states:
            key = hist + (i,)
            if canon not in found or key < found[canon]:
                found[canon] = key
    return found


def chdir_leg(col, sbx, ops, idxs):
    """chdir leg: for every operation o and c in CHDIR_TARGETS the history [o, os.chdir(c), o]."""
    from mc.ctx import HarnessError
    for i in idxs:
        for c in CHDIR_TARGETS:
            prefix = [ops[i], ("os.chdir", c, None)]
            _, base_eff, out0 = execute(sbx, prefix)
            canon, eff, outcomes = execute(sbx, prefix + [ops[i]])
            if out0[1] != "ok" or outcomes[:2] != out0:
                raise HarnessError(f"chdir leg: unexpected outcomes {out0} / {outcomes}")
            col.count("transitions")
            col.count("executions", 2)
            col.count("chdir_leg_histories")
            col.distinct("chdir_leg_outcomes", (ops[i][0], outcomes[-1]))
            base_set = {path for path, _ in base_eff}
            new = [e for e in eff if e[0] not in base_set]
            if new:
                if execute(sbx, prefix + [ops[i]])[:2] != (canon, eff):
                    raise HarnessError(f"violation did not replay: {prefix + [ops[i]]}")
                report(col, prefix + [ops[i]], new, dirty_prefix=bool(base_eff))


def _order(ops, seed):
    order = list(range(len(ops)))
    if seed:
        random.Random(seed).shuffle(order)  # order only; the set of executions is the same
    return order


def shard_first(col, scratch, seed, k, n, want_states):
    """Stage 1, shard k of n: levels 0 and 1 of the BFS (sharded by first operation) and the chdir leg.

    Importing pynguin dominates the cost of a worker, so level 0 (one history, every operation once)
    is recomputed by every shard to obtain the level-1 frontier; only shard 0 records it.
    """
    from mc.ctx import Collector
    ops = all_ops()
    order = _order(ops, seed)
    sbx = Sandbox(scratch)
    found = {}
    try:
        found0 = expand(col if k == 0 else Collector(), sbx, ops, order, (), True)
        frontier = sorted(key for key in found0.values() if len(key) == 1)
        col.note("level1_frontier", len(frontier))
        for h in frontier[k::n]:                      # one first operation per distinct level-1 state
            for canon, key in expand(col, sbx, ops, order, h, want_states).items():
                if canon not in found0 and (canon not in found or key < found[canon]):
                    found[canon] = key
        chdir_leg(col, sbx, ops, list(range(len(ops)))[k::n])
    finally:
        sbx.close()
    col.c29_found = found
    col.c29_seen = found0 if k == 0 else None


def shard(col, scratch, seed, want_states, hists):
    """Expand every history of ``hists`` (tuples of op indices) in this fresh process."""
    ops = all_ops()
    order = _order(ops, seed)
    sbx = Sandbox(scratch)
    found = {}
    try:
        for h in hists:
            for canon, key in expand(col, sbx, ops, order, tuple(h), want_states).items():
                if canon not in found or key < found[canon]:
                    found[canon] = key
    finally:
        sbx.close()
    col.c29_found = found


def run(ctx):
    from mc import par
    depth = 2 if ctx.quick else 3
    ops = all_ops()
    scratch = ctx.scratch("c29_")
    # every worker pays a full `import pynguin` (seconds); the quick tier has ~1 s of work per worker
    n = ctx.workers if depth > 2 else max(1, min(ctx.workers, 8))
    cols = par.run_shards("props.c29_fs_isolation:shard_first",
                          [(scratch, ctx.seed, k, n, depth > 2) for k in range(n)], n, ctx)
    level_sizes = [1, ctx.col.notes.get("level1_frontier")]
    for level in range(2, depth):
        if level == 2:
            seen = dict(cols[0].c29_seen)
        merged = {}
        for c in cols:
            for canon, key in c.c29_found.items():
                if canon not in merged or key < merged[canon]:
                    merged[canon] = key
        frontier = []
        for canon, key in sorted(merged.items(), key=lambda kv: kv[1]):
            if canon not in seen:
                seen[canon] = key
                if len(key) == level:
                    frontier.append(key)
        level_sizes.append(len(frontier))
        last = level == depth - 1
        size = max(1, -(-len(frontier) // (n * 6)))
        chunks = [frontier[i:i + size] for i in range(0, len(frontier), size)]
        cols = par.run_shards("props.c29_fs_isolation:shard",
                              [(scratch, ctx.seed, not last, c) for c in chunks], n, ctx)
    ctx.require(ctx.col.counters.get("chdir_leg_histories") == len(ops) * len(CHDIR_TARGETS), "chdir leg incomplete")
    ctx.require(len(ctx.col.sets.get("chdir_leg_outcomes", ())) > len(SINGLE), "vacuous chdir leg")
    cnt = ctx.col.counters
    ctx.count("traces_validated_against_impl", cnt.get("executions", 0))
    kinds = set(SINGLE) | set(DOUBLE)
    n_ok = len(ctx.col.sets.get("kinds_ok", ()))
    n_eff = len(ctx.col.sets.get("kinds_with_effect", ()))
    ctx.require(len(ctx.col.sets.get("states", ())) > 20, "vacuous: almost no distinct states")
    ctx.require(len(ctx.col.sets.get("outcomes", ())) > len(kinds), "vacuous: operations have one outcome")
    ctx.require(n_ok == len(kinds), f"vacuous: only {n_ok}/{len(kinds)} operation kinds ever succeeded")
    ctx.require(n_eff == len(kinds) - len(READONLY),
                f"vacuous: only {n_eff}/{len(kinds) - len(READONLY)} writing operation kinds ever changed the state")
    ctx.note("depth", depth)
    ctx.note("worker_processes_used", n)
    ctx.note("operation_kinds", len(kinds))
    ctx.note("operation_instances", len(ops))
    ctx.note("paths", list(PATHS))
    ctx.note("expanded_states_per_level", level_sizes)
    ctx.exhaustive = True
    ctx.rule = (f"level-synchronous BFS over all histories of <= {depth} operations out of "
                f"{len(ops)} instances ({len(kinds)} kinds x paths {list(PATHS)}) inside one "
                "FilesystemIsolation block; a state = (tree with contents and link targets, recorded-created "
                "set); every distinct state of level k is expanded with every operation; plus the chdir leg: "
                f"[o, os.chdir(c), o] for every instance o and c in {list(CHDIR_TARGETS)}")
    ctx.assume("single process, single thread; apart from the chdir leg the cwd is the sandbox root for the "
               "whole history; the isolation's process-global path cache is cleared before every execution")
    ctx.assume("operations use relative paths without '..'; no chmod/chown/hard links/special files; "
               "what is wrong after the block depends only on the canonical state")
    ctx.assume("only the APIs of the alphabet are exercised; APIs the isolation does not patch at all "
               "(os.truncate, os.symlink, os.link, subprocesses, C extensions) are out of scope")


def replay(ctx, data):
    hist = [tuple(e) for e in data["history"]]
    sbx = Sandbox(ctx.scratch("c29_"))
    try:
        base = {path for path, _ in execute(sbx, hist[:-1])[1]} if hist else set()
        canon, eff, outcomes = execute(sbx, hist)
        new = [e for e in eff if e[0] not in base]
        print(f"history: {hist}\noutcomes: {list(outcomes)}\ncreated: {list(canon[1])}\n"
              f"wrong after the block: {list(eff)}", flush=True)
        if new:
            report(ctx.col, hist, new, dirty_prefix=bool(base))
    finally:
        sbx.close()
