"""C22 — minimisation never reduces coverage.

E2 population suites (1-3 test cases built by the real factory) go through the
real ``generator._minimize`` under every strategy (CASE, SUITE, COMBINED) and
direction (FORWARD, BACKWARD), with and without generated assertions. Oracle on
every (suite, strategy, direction) transition, with coverage RECOMPUTED from
scratch (fresh chromosomes built from the code, fresh coverage functions):
exactly the same branch and line coverage; no statement that was not in the
original test case (modulo ``var = e`` -> ``e``); every statement whose variable
is asserted on is kept with its binding; ``_minimize`` does not raise.
"""

from __future__ import annotations

import itertools
import math
import re

from mc import par, pipeline

ID = "C22"
LEVEL = "model_checking"

STRATEGIES = [(s, d) for s in ("CASE", "SUITE", "COMBINED") for d in ("FORWARD", "BACKWARD")]


def norm(code):
    return re.sub(r"\s+", " ", code.strip())


SEQUENCE_MODULES = {"stateful"}


def strip_binding(code):
    m = re.match(r"^\s*var_\d+\s*=\s*(.*)$", code, flags=re.S)
    return m.group(1) if m else code


def fresh_coverage(pipe, suite):
    """Coverage of the suite's current code, nothing cached."""
    import pynguin.ga.computations as comp

    s2 = pipe.suite([c.test_case for c in suite.test_case_chromosomes])
    return [comp.TestSuiteBranchCoverageFunction(pipe.executor).compute_coverage(s2),
            comp.TestSuiteLineCoverageFunction(pipe.executor).compute_coverage(s2)]


def stmts(test_case):
    import libcst as cst
    return [norm(cst.Module(body=[s.node]).code) for s in test_case.statements()]


def shard(col, module, pop_bound, limit, n_groups, with_assertions):
    import logging
    import shutil
    import tempfile

    logging.disable(logging.CRITICAL)
    scratch = tempfile.mkdtemp(prefix="c22_", dir="/dev/shm")
    try:
        pipe = pipeline.Pipe(module, scratch)
        if module in SEQUENCE_MODULES:
            # small stateful API: every call sequence of <= 3 accessibles, all pairs of the short ones
            tests = pipe.population_sequences(3)
            short = [t for t in tests if t.size() <= 3]
            groups = [[t] for t in tests] + [list(g) for g in itertools.combinations(short, 2)]
        else:
            tests, _ = pipe.population(bound=pop_bound, limit=limit)
            step = max(1, len(tests) // 6)
            core = tests[::step][:6]
            groups = [[t] for t in tests]
            groups += [list(g) for g in itertools.islice(itertools.combinations(core, 2), n_groups)]
            groups += [list(g) for g in itertools.islice(itertools.combinations(core, 3), n_groups // 2)]
        import pynguin.testcase.testcase as tcm
        import_only = fresh_coverage(pipe, pipe.suite([tcm.TestCase()]))
        for gi, group in enumerate(groups):
            for strategy, direction in STRATEGIES:
                suite = pipe.suite(group)
                data = {"module": module, "strategy": strategy, "direction": direction,
                        "assertions": with_assertions, "tests": [t.to_code() for t in group],
                        "pop_bound": pop_bound}
                if with_assertions:
                    try:
                        pipe.generate_assertions(suite, "SIMPLE")
                    except Exception:  # noqa: BLE001
                        continue
                before_cov = fresh_coverage(pipe, suite)
                # the originals are kept alive until the comparison is done: a visitor that replaces a chromosome
                # frees the old object, and a NEW chromosome allocated at its address would be taken for it
                keep_alive = list(suite.test_case_chromosomes)
                before_stmts = {id(c): stmts(c.test_case) for c in keep_alive}
                # "every statement whose variable is asserted on": an assertion whose source is (a field of)
                # the variable the statement binds; exception assertions are not on a variable
                asserted = {id(c): [(norm_stmt, st.bound_variable)
                                    for norm_stmt, st in zip(stmts(c.test_case), c.test_case.statements())
                                    if st.bound_variable and any(
                                        str(getattr(a, "source", "") or "").split(".", 1)[0] == st.bound_variable
                                        for a in st.assertions)]
                            for c in suite.test_case_chromosomes}
                size_before = sum(c.test_case.size() for c in suite.test_case_chromosomes)
                tag = f"{strategy}:{direction}|{'asserted' if with_assertions else 'plain'}"
                col.count("transitions")
                col.count("traces_validated_against_impl")
                try:
                    pipe.minimize(suite, strategy, direction)
                except Exception as exc:  # noqa: BLE001
                    import traceback
                    tb = traceback.extract_tb(exc.__traceback__)
                    where = next((f.name for f in reversed(tb) if "/pynguin/" in f.filename), "?")
                    col.violation(f"C22|{tag}|minimize-raises:{type(exc).__name__}@{where}",
                                  f"{module}: {exc!r}"[:300], data, rank=size_before)
                    continue
                after_cov = fresh_coverage(pipe, suite)
                size_after = sum(c.test_case.size() for c in suite.test_case_chromosomes)
                col.distinct("states", (module, gi, strategy, direction, with_assertions, size_after,
                                        tuple(round(x, 6) for x in after_cov)))
                if size_after < size_before:
                    col.count("minimizations_with_effect")
                    col.distinct("strategies_with_effect", (strategy, direction))
                emptied = size_after == 0 and all(math.isclose(b, i) for b, i in zip(before_cov, import_only))
                for name, b, a in zip(("branch", "line"), before_cov, after_cov):
                    if not math.isclose(b, a):
                        sig = f"{name}-coverage-{'reduced' if a < b else 'increased'}"
                        if emptied:
                            # the suite covered nothing beyond what importing the module covers; every
                            # statement was removed, the empty tests were dropped, an empty suite reports 0
                            sig = f"{name}-coverage-import-only-suite-emptied"
                        col.violation(f"C22|{tag}|{sig}",
                                      f"{module}: {name} coverage {b} -> {a} after _minimize "
                                      f"(import-only coverage {import_only})", data, rank=size_before)
                all_orig = list(before_stmts.values())
                for c in suite.test_case_chromosomes:
                    orig = before_stmts.get(id(c)) if any(c is k for k in keep_alive) else None
                    if orig is None:
                        # the visitor replaced the chromosome object: match by largest statement overlap
                        now_set = set(stmts(c.test_case))
                        orig = max(all_orig, key=lambda o: len(now_set & (set(o) | {strip_binding(x) for x in o})),
                                   default=None)
                        if orig is None:
                            col.violation(f"C22|{tag}|new-test-case-appeared", module, data, rank=size_before)
                            continue
                        asserted[id(c)] = []
                    allowed = set(orig) | {strip_binding(o) for o in orig}
                    for s in stmts(c.test_case):
                        if s not in allowed:
                            col.violation(f"C22|{tag}|statement-not-in-original",
                                          f"{module}: `{s}` not among {orig}", data, rank=size_before)
                    now = stmts(c.test_case)
                    for code, var in asserted[id(c)]:
                        if code not in now:
                            col.violation(
                                f"C22|{tag}|asserted-statement-"
                                f"{'unbound' if strip_binding(code) in now else 'removed'}",
                                f"{module}: `{code}` (asserted variable {var}) gone: {now}", data,
                                rank=size_before)
                col.sample({"module": module, "strategy": strategy, "direction": direction,
                            "size": [size_before, size_after], "coverage": after_cov}, every=29)
        pipe.close()
    finally:
        shutil.rmtree(scratch, ignore_errors=True)


def run(ctx):
    modules = ["numeric", "containers", "shapes", "stateful"] if ctx.quick else \
        ["numeric", "containers", "shapes", "strings", "raising", "stateful"]
    jobs = []
    for m in modules:
        for wa in (False, True):
            jobs.append((m, 1 if ctx.quick else 2, 10 if ctx.quick else 40, 4 if ctx.quick else 12, wa))
    par.run_shards("props.c22_minimize:shard", jobs, ctx.workers, ctx)
    ctx.require(ctx.col.counters.get("minimizations_with_effect", 0) > 10, "vacuous: nothing was minimised")
    ctx.require(len(ctx.col.sets.get("strategies_with_effect", ())) >= 4, "vacuous: strategies without effect")
    ctx.exhaustive = True
    ctx.rule = ("suites = singletons, pairs and triples of the enumerated population per module; one real "
                "_minimize per (suite, strategy, direction, with/without assertions); states = distinct "
                "(suite, strategy, resulting size, coverage)")
    ctx.assume("a whole test case removed by SUITE minimisation may take its asserted statements with it")


def replay(ctx, data):
    from mc.ctx import Collector
    col = Collector()
    shard(col, data["module"], data.get("pop_bound", 1), 40, 12, data["assertions"])
    ctx.merge(col)
