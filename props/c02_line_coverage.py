"""C02 -- reported line coverage equals the lines the interpreter actually executed.

Bounded-exhaustive enumeration (E3).  For every ``mc.progen`` program up to a size bound (plus the
hand-written seeds) and every input of its menu:

* ground truth: the same source compiled under another file name, *uninstrumented*, executed under
  ``sys.monitoring`` ``LINE`` events restricted to the module's code objects (``mc.groundtruth``);
  every call is also run under a second, independent oracle (``sys.settrace`` with
  ``f_trace_opcodes``: lines of the executed instructions); oracle disagreement = harness error;
* reported: the module loaded through the real import hook, ``var_0 = mod.f(a, b)`` executed by the
  real ``TestCaseExecutor``; metric sets LINE, BRANCH+LINE and BRANCH+LINE+CHECKED.

Pynguin's unit is the source line (``LineMetaData`` equality ignores the code object), so lines are
compared as line numbers of the module.  Oracle per execution (the module body -- the import trace,
which pynguin merges into every trace -- is checked as its own execution and subtracted from the calls):

  L1  ``lineids_to_linenos(covered_line_ids)`` == executed lines that are coverable (coverable =
      pynguin's own ``existing_lines``; RESUME / END_FOR lines are skipped by design)
      -> ``line-reported-not-executed`` / ``line-executed-not-reported``;
  L2  every executed line (one with a LINE event in the plain run) is coverable -> ``line-not-coverable``;
  L3  every registered / reported line is a line of the SUT file (right ``file_name``, an int within the
      file) -> ``foreign-line``;
  L4  ``compute_line_coverage`` == |executed coverable lines (import + call)| / |existing_lines|
      -> ``coverage-value-wrong``;
  L5  the instrumented call ends like the plain one (same exception type or none) -> ``behaviour-differs``
      (root causes are C01's; reported so that such calls are never silently skipped).

Fingerprint: ``C02|<metric set>|<first opcode on the line | line-<n> | exc->exc>|<signature>``.
"""

from __future__ import annotations

ID = "C02"
LEVEL = "exploration"

METRIC_SETS = [("LINE",), ("BRANCH", "LINE"), ("BRANCH", "LINE", "CHECKED")]


def _sorted_lines(lines):
    return sorted(lines, key=lambda l: -1 if not isinstance(l, int) else l)


class Visitor:
    """Line ids are per (file, line number) -- ``LineMetaData`` equality ignores the code object -- so the unit
    of comparison is the source line: a line counts as executed when any code object executed it."""

    def __init__(self):
        self.import_lines = set()
        self.import_expected = set()
        self.per_program_outcomes = set()

    # ---- helpers
    @staticmethod
    def _fp(metrics, op, sig):
        from mc.groundtruth import metrics_tag
        return f"C02|{metrics_tag(metrics)}|{op}|{sig}"

    @staticmethod
    def _first_op(case, line, keys=None):
        """First instruction (offset order, outermost code object first) on ``line``."""
        for k, ops in case.plain.lineops.items():
            if keys is not None and k not in keys:
                continue
            if line in ops:
                return case.plain.first_op(k, line)
        return "no-instruction"

    def _compare(self, col, case, rep, metrics, idx, reported, ev, where):
        """L1 + L2 for one execution.  ``reported``: set of line numbers; ``ev.lines``: {(key, line)}."""
        from mc import groundtruth as gt

        coverable = {l for _k, l in rep.coverable()}
        executed = {l for _k, l in ev.lines}
        expected = executed & coverable
        data = gt.case_data(case, metrics, idx)
        rank = gt.case_rank(case, idx or 0)
        ok = True
        for line in _sorted_lines(reported - expected):
            ok = False
            if not isinstance(line, int) or not 1 <= line <= case.nlines:
                col.violation(self._fp(metrics, f"line-{line}", "foreign-line"),
                              f"{case.name} {where}: reported covered line {line!r} is not a line of the module "
                              f"under test ({case.nlines} lines)", data, rank)
                continue
            col.violation(self._fp(metrics, self._first_op(case, line), "line-reported-not-executed"),
                          f"{case.name} {where}: line {line} reported as covered, the interpreter did not "
                          f"execute it (executed: {sorted(executed)})", data, rank)
        for line in _sorted_lines(expected - reported):
            ok = False
            col.violation(self._fp(metrics, self._first_op(case, line, {k for k, l in ev.lines if l == line}),
                                   "line-executed-not-reported"),
                          f"{case.name} {where}: line {line} executed and coverable but not reported "
                          f"(reported: {_sorted_lines(reported)})", data, rank)
        # L2 completeness
        for k, l in sorted(ev.lines):
            if l in coverable:
                continue
            ops = [o for o in case.plain.lineops.get(k, {}).get(l, ()) if o not in gt.NO_LINE_OPS]
            kind = "unregistered-code-object" if k not in rep.cid_of_key else (ops[0] if ops else "no-instruction")
            col.violation(self._fp(metrics, kind, "line-not-coverable"),
                          f"{case.name} {where}: line {l} of {k[0]} was executed (instructions {ops[:6]}) but is "
                          "not in existing_lines", data, rank)
            ok = False
        return ok, expected

    # ---- visitor protocol
    def loaded(self, col, case, rep, metrics):
        from mc import groundtruth as gt

        col.count("modules_loaded")
        data = gt.case_data(case, metrics)
        case.nlines = case.source.count("\n") + 1
        for lid, fname, line in rep.foreign:
            col.violation(self._fp(metrics, "registry", "foreign-line"),
                          f"{case.name}: line id {lid} is registered for file {fname!r} line {line}, "
                          f"not the module under test", data, gt.case_rank(case))
        for lid, meta in rep.sp.existing_lines.items():
            line = meta.line_number
            if not isinstance(line, int) or not 1 <= line <= case.nlines:
                col.violation(self._fp(metrics, f"line-{line}", "foreign-line"),
                              f"{case.name}: existing_lines holds a coverable line {line!r} (id {lid}) that is not "
                              f"a line of the module under test ({case.nlines} lines)", data, gt.case_rank(case))
        for k in rep.cid_of_key:
            if k not in case.plain.by_key:
                raise gt.GroundTruthError(f"{case.name}: registered code object {k} unknown to the plain compile")
        imp_trace = rep.sut.tracer.import_trace
        self.import_lines = {l for _k, l in rep.covered_pairs(imp_trace)}
        col.count("evaluations")
        col.count("import_executions")
        ok, expected = self._compare(col, case, rep, metrics, None, set(self.import_lines), case.imp, "module body")
        self.import_expected = expected
        if ok:
            self._value(col, case, rep, metrics, None, imp_trace, expected, "module body")

    def _value(self, col, case, rep, metrics, idx, trace, expected_lines, where):
        from mc import groundtruth as gt
        import pynguin.ga.fitness_metrics as fm

        existing = len(rep.sp.existing_lines)
        want = 1.0 if existing == 0 else len(expected_lines) / existing
        try:
            got = fm.compute_line_coverage(trace, rep.sp)
        except Exception as exc:  # noqa: BLE001
            got = f"raises:{type(exc).__name__}"
        if not (isinstance(got, float) and abs(got - want) < 1e-12):
            col.violation(self._fp(metrics, "compute_line_coverage", "coverage-value-wrong"),
                          f"{case.name} {where}: compute_line_coverage = {got}, executed coverable lines / "
                          f"existing lines = {len(expected_lines)}/{existing}", gt.case_data(case, metrics, idx),
                          gt.case_rank(case, idx or 0))

    def call(self, col, case, rep, metrics, idx, result):
        a_src, b_src, ev = case.inputs[idx]
        trace = result.execution_trace
        covered = set(rep.sp.lineids_to_linenos(trace.covered_line_ids))
        executed = {l for _k, l in ev.lines}
        call_lines = covered - (self.import_lines - executed)
        ok, expected = self._compare(col, case, rep, metrics, idx, call_lines, ev, f"f({a_src}, {b_src})")
        if ok:
            self._value(col, case, rep, metrics, idx, trace, expected | self.import_expected,
                        f"f({a_src}, {b_src})")
        col.distinct("outcomes", tuple(sorted(expected)))
        self.per_program_outcomes.add(tuple(sorted(expected)))
        for k, l in ev.lines:
            col.distinct("first_ops", case.plain.first_op(k, l))

    def behaviour_differs(self, col, case, rep, metrics, idx, plain_exc, inst_exc):
        """The instrumented call ends differently from the plain one: whatever is reported cannot be what the
        interpreter did on the uninstrumented code.  (Root causes belong to C01; reported here under its own
        signature so that it is never silently skipped.)"""
        from mc import groundtruth as gt

        a_src, b_src, _ev = case.inputs[idx]
        col.violation(self._fp(metrics, f"{plain_exc}->{inst_exc}", "behaviour-differs"),
                      f"{case.name} f({a_src}, {b_src}): the plain call ends with {plain_exc}, the instrumented "
                      f"call with {inst_exc}", gt.case_data(case, metrics, idx), gt.case_rank(case, idx))


def check_program(col, name, source, meta, metric_sets, scratch, second_oracle, sample_every=97):
    from mc import groundtruth as gt
    from mc import progen

    case = gt.Case(name, source, meta, second_oracle=second_oracle)
    col.count("programs")
    if second_oracle:
        col.count("second_oracle_calls", len(case.inputs))
    for a, b, mon_only, set_only in case.oracle_disagreements:
        col.count("oracle_disagreements")
        col.note("oracle_disagreement_example",
                 f"{name} f({a}, {b}): monitoring-only {mon_only}, settrace-only {set_only}")
    v = Visitor()
    gt.drive(col, case, metric_sets, scratch, v, "C02")
    sig = progen.dis_signature(case.plain.code, "ops")
    col.distinct("shapes", sig)
    if len(v.per_program_outcomes) >= 2:
        col.distinct("nontrivial", sig)
    for op in progen.opcodes(case.plain.code):
        col.distinct("opcodes", op)
    ev_tags = progen.construct_evidence(case.plain.code)
    for t in meta.get("constructs", ()):
        col.distinct("constructs_declared", t)
        if t in ev_tags:
            col.distinct("constructs_evidenced", t)
    col.sample({"program": name, "source": source, "inputs": len(case.inputs),
                "distinct_executed_line_sets": len(v.per_program_outcomes),
                "executed_lines_first_input": sorted(l for _k, l in case.inputs[0][2].lines) if case.inputs else []},
               every=sample_every)


def shard(col, kind, min_size, max_size, max_depth, k, nshards, metric_sets, second_oracle=True, root=None):
    import os
    import shutil
    import tempfile

    from mc import progen

    if root is None:
        scratch = tempfile.mkdtemp(prefix="c02_", dir="/dev/shm")
    else:                       # a sub-directory of the run's ctx.scratch(): removed by the parent whatever happens
        scratch = os.path.join(root, f"{kind}_{min_size}_{max_size}_{k}_{nshards}")
        os.makedirs(scratch, exist_ok=True)
    try:
        if kind == "seeds":
            progs = [p for i, p in enumerate(progen.seeds()) if i % nshards == k]
        else:
            progs = (p for i, p in enumerate(progen.programs(max_size, max_depth))
                     if i % nshards == k and p[2]["size"] >= min_size)
        for name, source, meta in progs:
            col.count(f"{kind}_programs")
            if kind != "seeds":
                col.count(f"grammar_programs_size{meta['size']}[{'|'.join('+'.join(m) for m in metric_sets)}]")
            check_program(col, name, source, meta, metric_sets, scratch, second_oracle)
    finally:
        shutil.rmtree(scratch, ignore_errors=True)


def plan(ctx):
    """Jobs of a tier: (label, [shard args]).  quick: sizes <= 2 and the seeds under every metric set, size 3
    under the primary metric set only; thorough: sizes <= 3 at depth <= 3 and the seeds under every metric set."""
    w = max(1, ctx.workers)
    all_sets = [list(m) for m in METRIC_SETS]
    jobs = []
    if ctx.quick:
        n, d = 3, 2
        jobs += [("grammar", 3, 3, d, k, 2 * w, all_sets[:1], True) for k in range(2 * w)]
        jobs += [("grammar", 1, 2, d, k, w // 2 or 1, all_sets, True) for k in range(w // 2 or 1)]
    else:
        n, d = 3, 3
        jobs += [("grammar", 1, 3, d, k, 4 * w, all_sets, True) for k in range(4 * w)]
    jobs += [("seeds", 0, 0, 0, k, 4, all_sets, True) for k in range(4)]
    root = ctx.scratch(prefix="c02_")
    jobs = [(*j, root) for j in jobs]
    if ctx.seed:
        r = ctx.seed % len(jobs)
        jobs = jobs[r:] + jobs[:r]
    return n, d, jobs


def run(ctx):
    from mc import par, progen

    n, d, jobs = plan(ctx)
    par.run_shards("props.c02_line_coverage:shard", jobs, ctx.workers, ctx)

    c = ctx.col.counters
    soft_failed = []
    import os

    from mc import findings
    known = findings.load(os.environ.get("VERIF_HOME", os.path.dirname(os.path.dirname(os.path.abspath(__file__)))))
    unlisted = [fp for fp in ctx.col.violations if findings.match(known, ID, fp) is None]

    def guard(cond, msg, hard=False):
        """Vacuity guards are harness errors -- unless a violation was found: a replayable counterexample is a
        verdict on its own (exit 1) and must not be hidden behind exit 2; with only known findings, or none, the
        guards are hard.  Oracle self-consistency and completeness of the enumeration are always hard."""
        if cond:
            return
        if hard or not unlisted:
            ctx.require(False, msg)
        soft_failed.append(msg)

    total = sum(progen.count(n, d).values())
    ctx.note("progen_bound", {"max_size": n, "max_depth": d, "programs_in_bound": total,
                              "seeds": len(progen.seeds())})
    ctx.note("metric_sets", ["+".join(m) for m in METRIC_SETS])
    ctx.note("tier_plan", "sizes<=2 + seeds: all metric sets; size 3: LINE only" if ctx.quick
             else "sizes<=3 (depth<=3) + seeds: all metric sets")
    guard(c.get("instrumentation_failures", 0) * 10 <= c.get("modules_loaded", 0),
                "too many modules could not be instrumented")
    guard(c.get("grammar_programs", 0) == total, f"grammar programs {c.get('grammar_programs')} != {total}", hard=True)
    guard(c.get("seeds_programs", 0) == len(progen.seeds()), "not every seed was checked", hard=True)
    guard(c.get("oracle_disagreements", 0) == 0,
                "the two line oracles (sys.monitoring LINE / sys.settrace opcodes) disagree: "
                f"{ctx.col.notes.get('oracle_disagreement_example')}", hard=True)
    guard(c.get("second_oracle_calls", 0) > 300, "second oracle validated too few calls")
    guard(len(ctx.col.sets.get("outcomes", ())) > 50, "vacuous: too few distinct executed-line sets")
    guard(len(ctx.col.sets.get("nontrivial", ())) >= 2, "vacuous: no program whose inputs differ in coverage")
    declared = ctx.col.sets.get("constructs_declared", set())
    evidenced = ctx.col.sets.get("constructs_evidenced", set())
    guard(declared and declared == evidenced,
                f"vacuity: constructs never seen in dis output: {sorted(declared - evidenced)}")
    for op in ("FOR_ITER", "END_FOR", "PUSH_EXC_INFO", "BEFORE_WITH", "YIELD_VALUE", "MATCH_SEQUENCE",
               "LIST_APPEND", "MAKE_FUNCTION", "LOAD_BUILD_CLASS", "NOP", "RERAISE"):
        guard(op in ctx.col.sets.get("opcodes", set()), f"vacuity: opcode {op} never generated")
    if soft_failed:
        ctx.note("vacuity_guards_failed_but_violations_found", soft_failed)
    ctx.exhaustive = True
    ctx.rule = ("one evaluation = one execution (module import or one call f(a, b)) under one metric set whose "
                "reported line set is compared with the interpreter's; non-trivial = distinct bytecode shape "
                "(dis_signature 'ops') of a program for which two inputs of the menu execute different line sets")
    ctx.assume("CPython 3.12; sys.monitoring LINE events on the uninstrumented code are the reference, validated "
               "per call against executed-instruction lines from sys.settrace(f_trace_opcodes)")
    ctx.assume("programs whose module cannot be loaded under a metric set (CHECKED instrumentation raises on "
               "`with`) or would crash the interpreter (CHECKED on inlined comprehensions) are skipped for that "
               "metric set and counted (instrumentation_failures, skipped_checked_on_inlined_comprehension): C01")
    ctx.assume("coverable lines are pynguin's own existing_lines (RESUME / END_FOR lines are not coverable by "
               "design); completeness of that set is checked only for lines that were actually executed")
    ctx.assume("a call whose exception type differs between plain and instrumented run is reported once as "
               "behaviour-differs (root cause: C01) and its coverage is not compared further")
    ctx.assume("no coverage exclusions (pragma / only-cover) are configured: C08's subject")


def replay(ctx, data):
    import shutil
    import tempfile

    scratch = tempfile.mkdtemp(prefix="c02r_", dir="/dev/shm")
    try:
        meta = dict(data.get("meta") or {})
        meta.setdefault("constructs", [])
        check_program(ctx.col, data["name"], data["source"], meta, [tuple(data["metrics"])], scratch, True)
    finally:
        shutil.rmtree(scratch, ignore_errors=True)
