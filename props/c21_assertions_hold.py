"""C21 — kept assertions hold on the original module and preserve mutant kills.

Four legs, all exhaustive within their stated bounds, all against the real code:

* **setcover** — every kill map of every shape ``a x m`` (``a`` assertions,
  ``m`` mutants) within the tier's bound is fed to the real
  ``_select_minimal_assertions`` under two key layouts. Oracle (from the
  property text, lenient reading): kept is a subset of the keys, no kept key has
  an empty kill set, and the union of the kept kill sets equals the union of all
  kill sets. Irredundancy / minimum cardinality are *counted*, not demanded.
* **metrics** — ``_MutationMetrics.get_score`` for every (created, killed,
  timed-out) with killed + timed-out <= created <= 6, and ``_MutationSummary``
  for every sequence of <= 6 mutants over the four states the data model allows
  (survived, killed, timed-out, killed-then-timed-out). Oracle: score in [0, 1],
  equal to the score of the same data with the timed-out mutants deleted.
* **pipeline** — the real ``MutationAnalysisAssertionGenerator.
  _handle_add_assertions`` (summary, score report, kill map, minimisation /
  non-relevant removal) driven by a scripted mutant controller and a scripted
  mutant executor: every matrix (tests x mutants) over the cell alphabet
  {ok, every non-empty set of violated assertions, assertion error, test
  exception, timeout} plus "invalid mutant" (unchecked). Oracle: reported score
  in [0, 1] and equal to killed / (checked - timed-out) computed from the
  matrix alone; every non-timed-out mutant killed with the full assertion set
  is still killed with the kept set.
* **real** — test cases enumerated with the real TestFactory (mc.tcenum) on
  corpus modules, wrapped into suites of 1-2 tests, run through the real
  ``AssertionGenerator`` and (wired by pynguin's own
  ``_setup_mutation_analysis_assertion_generator``) the real
  ``MutationAnalysisAssertionGenerator`` with FIRST_ORDER and higher-order
  mutants, with and without assertion minimisation. Oracle: every assertion
  left on a test case holds (a) under the real
  ``RemoteAssertionVerificationObserver`` on the unmutated instrumented module
  and (b) under an independent 20-line evaluator on a pristine un-instrumented
  copy of the module; the reported score is in [0, 1] and counts neither
  invalid (unchecked) nor timed-out mutants; every mutant killed by the suite
  with the full assertion set (snapshot before mutation filtering) is killed by
  the suite with the kept set, both recomputed by fresh executions on freshly
  created mutants.
"""

from __future__ import annotations

import contextlib
import itertools
import os
import shutil
import tempfile

from mc.ctx import HarnessError

ID = "C21"
LEVEL = "exploration"

# module -> deviation bound of the test-case enumeration
MODULES_QUICK = {"numeric": 1, "containers": 1, "shapes": 1, "raising": 1, "c21_flaky": 1}
MODULES_THOROUGH = {"numeric": 1, "containers": 2, "shapes": 2, "strings": 1, "raising": 2, "c21_flaky": 2}
# modules whose observable values change with every execution in the process (the filtering pass
# must drop the assertions on them); their mutant modules are re-created for every suite
STATEFUL = {"c21_flaky"}
SCRIPT = [("insert",), ("insert",)]

# generator configurations of the real leg: name -> (kind, strategy, order, minimise)
CONFIGS = {
    "plain": ("plain", None, 1, None),
    # pynguin's default wiring: the filtering pass runs in a fresh subprocess (singleton suites only)
    "plain-subproc": ("plain", "SUBPROCESS-FILTER", 1, None),
    "fo+min": ("ma", "FIRST_ORDER_MUTANTS", 1, True),
    "fo-nomin": ("ma", "FIRST_ORDER_MUTANTS", 1, False),
    "hom-f2l+min": ("ma", "FIRST_TO_LAST", 2, True),
    "hom-f2l-nomin": ("ma", "FIRST_TO_LAST", 2, False),
    "hom-each+min": ("ma", "EACH_CHOICE", 2, True),
    "hom-between+min": ("ma", "BETWEEN_OPERATORS", 2, True),
}
CONFIGS_QUICK = ["plain", "fo+min", "fo-nomin", "hom-f2l+min"]
CONFIGS_THOROUGH = list(CONFIGS)


# =========================================================================== set cover
LAYOUTS = {
    "one-stmt": lambda a: [(0, i) for i in range(a)],
    "mixed": lambda a: [(0, 0), (0, 1), (1, 0), (3, 0), (3, 1), (3, 2), (4, 0)][:a],
}


def check_cover(col, select, keys, kills, shape):
    """One kill map through the real selection; ``kills[i]`` = set of mutants of keys[i]."""
    kill_map = {k: set(s) for k, s in zip(keys, kills)}
    data = {"leg": "setcover", "keys": [list(k) for k in keys], "kills": [sorted(s) for s in kills]}
    col.count("evaluations")
    col.count("setcover_maps")
    try:
        keep = select(kill_map)
    except Exception as exc:  # noqa: BLE001
        col.violation(f"C21|setcover|raises:{type(exc).__name__}|{shape}",
                      f"_select_minimal_assertions({kill_map}) raised {exc!r}", data, rank=len(keys))
        return
    universe = set().union(*kills) if kills else set()
    orig = dict(zip(keys, kills))
    col.distinct("setcover_outcomes", (len(keep), len(universe)))
    col.distinct("setcover_inputs", (len(universe), sum(1 for s in kills if s)))
    if not set(keep) <= set(keys):
        col.violation(f"C21|setcover|kept-not-subset|{shape}",
                      f"kept {sorted(keep)} is not a subset of the keys {keys}", data, rank=len(keys))
        return
    if any(not orig[k] for k in keep):
        col.violation(f"C21|setcover|kept-empty-kill-assertion|{shape}",
                      f"kept {sorted(keep)} contains an assertion that kills nothing: {kill_map}",
                      data, rank=len(keys))
    covered = set().union(*[orig[k] for k in keep]) if keep else set()
    if covered != universe:
        col.violation(f"C21|setcover|kill-lost|{shape}",
                      f"kept {sorted(keep)} kills {sorted(covered)}, full set kills {sorted(universe)}: "
                      f"{ {k: sorted(v) for k, v in orig.items()} }", data, rank=len(keys))
        return
    # informational (not demanded by the property): irredundancy
    redundant = any(orig[k] <= set().union(*[orig[o] for o in keep if o != k], set()) for k in keep)
    if redundant:
        col.count("setcover_redundant_selection")
    cands = [k for k in keys if orig[k]]
    if len(keep) < len(cands):
        col.distinct("nontrivial", ("setcover", tuple(keys), tuple(tuple(sorted(s)) for s in kills)))
        col.sample({"leg": "setcover", "kill_map": {str(k): sorted(v) for k, v in orig.items()},
                    "kept": sorted(map(list, keep))}, every=9973)


def shard_setcover(col, a, m, lo, hi):
    """All kill maps of shape a x m whose code (a*m bit number) is in [lo, hi)."""
    import pynguin.assertion.assertiongenerator as ag

    select = ag._select_minimal_assertions  # noqa: SLF001
    mask = (1 << m) - 1
    subsets = [frozenset(j for j in range(m) if (s >> j) & 1) for s in range(1 << m)]
    shape = f"{a}x{m}"
    for layout, mk in LAYOUTS.items():
        keys = mk(a)
        for code in range(lo, hi):
            kills = [subsets[(code >> (i * m)) & mask] for i in range(a)]
            check_cover(col, select, keys, kills, shape)
    col.distinct("setcover_shapes", shape)


# =========================================================================== metrics
def shard_metrics(col, bound):
    import pynguin.assertion.assertiongenerator as ag

    for c in range(bound + 1):
        for k in range(c + 1):
            for t in range(c - k + 1):
                col.count("evaluations")
                col.count("metrics_triples")
                data = {"leg": "metrics", "created": c, "killed": k, "timeout": t}
                shape = "killed+timeout<=created"
                try:
                    s = ag._MutationMetrics(c, k, t).get_score()  # noqa: SLF001
                    s_ref = ag._MutationMetrics(c - t, k, 0).get_score()  # noqa: SLF001
                except Exception as exc:  # noqa: BLE001
                    col.violation(f"C21|metrics|raises:{type(exc).__name__}|{shape}",
                                  f"_MutationMetrics({c},{k},{t}).get_score() raised {exc!r}", data, rank=c)
                    continue
                col.distinct("metric_scores", repr(s))
                if not (isinstance(s, float) and 0.0 <= s <= 1.0):
                    col.violation(f"C21|metrics|score-out-of-range|{shape}",
                                  f"_MutationMetrics({c},{k},{t}).get_score() = {s!r}", data, rank=c)
                want = (k / (c - t)) if c - t > 0 else 1.0
                if s != s_ref or abs(s - want) > 1e-12:
                    col.violation(f"C21|metrics|score-counts-timedout|{shape}",
                                  f"_MutationMetrics({c},{k},{t}).get_score() = {s!r}, without the "
                                  f"timed-out mutants {s_ref!r}, expected {want!r}", data, rank=c)
    # summaries: S survived, K killed, T timed out, B killed by an earlier test then timed out
    for n in range(bound + 1):
        for states in itertools.product("SKTB", repeat=n):
            col.count("evaluations")
            col.count("summaries")
            check_summary(col, "".join(states))


def _summary(ag, states):
    infos = []
    for i, st in enumerate(states):
        infos.append(ag._MutantInfo(i,  # noqa: SLF001
                                    timed_out_by=[1] if st in "TB" else [],
                                    killed_by=[0] if st in "KB" else []))
    return ag._MutationSummary(infos)  # noqa: SLF001


def check_summary(col, states):
    import pynguin.assertion.assertiongenerator as ag

    data = {"leg": "summary", "states": states}
    shape = "summary"
    try:
        full = _summary(ag, states)
        m = full.get_metrics()
        s = m.get_score()
        s_ref = _summary(ag, [x for x in states if x not in "TB"]).get_metrics().get_score()
        parts = (len(full.get_survived()), len(full.get_killed()), len(full.get_timeout()))
    except Exception as exc:  # noqa: BLE001
        col.violation(f"C21|metrics|raises:{type(exc).__name__}|{shape}",
                      f"_MutationSummary over {states!r} raised {exc!r}", data, rank=len(states))
        return
    if not (0.0 <= s <= 1.0):
        col.violation(f"C21|metrics|score-out-of-range|{shape}",
                      f"summary {states!r}: score {s!r} ({m})", data, rank=len(states))
    live = [x for x in states if x not in "TB"]
    want = (live.count("K") / len(live)) if live else 1.0
    if s != s_ref or abs(s - want) > 1e-12:
        col.violation(f"C21|metrics|score-counts-timedout|{shape}",
                      f"summary {states!r}: score {s!r}, with timed-out mutants deleted {s_ref!r}, "
                      f"expected {want!r}", data, rank=len(states))
    if parts != (states.count("S"), states.count("K"), states.count("T") + states.count("B")):
        col.violation(f"C21|metrics|wrong-partition|{shape}",
                      f"summary {states!r}: survived/killed/timeout = {parts}", data, rank=len(states))


# =========================================================================== pipeline
# test shapes: list of statements; "v<n>" = n value assertions, "x" = one exception assertion
PIPE_SHAPES = {
    "T1:v2,v1": [["v2", "v1"]],
    "T2:v2|v2": [["v2"], ["v2"]],
    "T1:v1,x": [["v1", "x"]],
    "T2:v1,v1|v1": [["v1", "v1"], ["v1"]],
}


def _cells_for(stmts):
    """The cell alphabet of one test: tuples (kind, payload)."""
    keys = []
    xkeys = []
    for si, s in enumerate(stmts):
        if s == "x":
            xkeys.append((si, 0))
        else:
            keys.extend((si, j) for j in range(int(s[1:])))
    cells = [("ok", ())]
    for r in range(1, len(keys) + 1):
        for sub in itertools.combinations(keys, r):
            cells.append(("viol", sub))
    cells.append(("err", (keys[0],)))
    for xk in xkeys:
        cells.append(("xok", (xk,)))           # the expected exception is raised (as on the original)
        cells.append(("viol", (xk,)))          # expected exception not raised
        cells.append(("xerr", (xk,)))          # a different exception raised
        cells.append(("viol", (keys[0], xk)))
    cells.append(("exc", (len(stmts) - 1,)))   # an (unexpected) exception in the last statement
    cells.append(("timeout", ()))
    return cells


def _pipe_tests(shape):
    import pynguin.assertion.assertion as ass
    from mc import pyn

    tests = []
    for stmts in PIPE_SHAPES[shape]:
        t = pyn.test_case(*[f"var_{i} = {i}" for i in range(len(stmts))])
        for si, (s, st) in enumerate(zip(stmts, t.statements())):
            if s == "x":
                st.assertions.append(ass.ExceptionAssertion("builtins", "ValueError"))
            else:
                for j in range(int(s[1:])):
                    st.assertions.append(ass.ObjectAssertion(f"var_{si}", 100 * si + j))
        tests.append(t)
    return tests


def _mk_result(cell):
    import pynguin.assertion.assertion_trace as at
    import pynguin.testcase.execution as ex

    kind, payload = cell
    if kind == "timeout":
        return ex.ExecutionResult(timeout=True)
    r = ex.ExecutionResult()
    tr = at.AssertionVerificationTrace()
    if kind == "viol":
        for (si, j) in payload:
            tr.failed[si].add(j)
    elif kind in ("err", "xerr"):
        for (si, j) in payload:
            tr.error[si].add(j)
        if kind == "xerr":
            r.report_new_thrown_exception(payload[0][0], KeyError("other"))
    elif kind == "exc":
        r.report_new_thrown_exception(payload[0], RuntimeError("boom"))
    elif kind == "xok":
        r.report_new_thrown_exception(payload[0][0], ValueError("expected"))
    r.assertion_verification_trace = tr
    return r


class _ScriptedProvider:
    def __init__(self):
        self.current = None

    def add_mutated_version(self, module_name, mutated_module):
        self.current = mutated_module


class _ScriptedExecutor:
    """Stands in for the mutant executor: yields the scripted result of (mutant, test)."""

    def __init__(self, matrix):
        self.matrix = matrix
        self.module_provider = _ScriptedProvider()
        self.consumed = []

    def execute_multiple(self, tests):
        col = self.matrix[self.module_provider.current.c21_index]
        for i, _ in enumerate(tests):
            self.consumed.append((self.module_provider.current.c21_index, i))
            yield _mk_result(col[i])


class _ScriptedController:
    def __init__(self, matrix):
        import types
        self.mods = []
        for j, colm in enumerate(matrix):
            if colm is None:
                self.mods.append(None)
            else:
                m = types.ModuleType("c21_scripted")
                m.c21_index = j
                self.mods.append(m)

    def create_mutants(self):
        for m in self.mods:
            yield m, []

    def mutant_count(self):
        return len(self.mods)


@contextlib.contextmanager
def _recorded_stats(ag):
    rec = []
    old = ag.stat.track_output_variable
    ag.stat.track_output_variable = lambda var, value: rec.append((getattr(var, "name", str(var)), value))
    try:
        yield rec
    finally:
        ag.stat.track_output_variable = old


def run_pipeline_case(col, shape, matrix, minimise, plain_exec=None, budget=-1):
    """matrix[j] = None (invalid mutant) or list of cells, one per test.

    budget = configured maximum_mutation_time (-1 unlimited; 0 = spent at once: nothing is checked).
    """
    import pynguin.assertion.assertiongenerator as ag
    import pynguin.configuration as config
    import pynguin.testcase.execution as ex
    from pynguin.instrumentation.tracer import SubjectProperties

    cfgname = ("min" if minimise else "nomin") + ("" if budget < 0 else f",budget={budget}")
    data = {"leg": "pipeline", "shape": shape, "matrix": matrix, "minimise": minimise, "budget": budget}
    rank = sum(1 for c in matrix for _ in (c or [0]))
    col.count("evaluations")
    col.count("pipeline_cases")
    config.configuration.test_case_output.assertion_minimization = minimise
    config.configuration.test_case_output.maximum_mutation_time = budget
    tests = _pipe_tests(shape)
    full = [[(si, j, a) for si, st in enumerate(t.statements()) for j, a in enumerate(st.assertions)]
            for t in tests]
    ident = [{id(a): (si, j) for (si, j, a) in f} for f in full]
    if plain_exec is None:
        plain_exec = ex.TestCaseExecutor(SubjectProperties())
    gen = ag.MutationAnalysisAssertionGenerator(plain_exec, _ScriptedController(matrix), testing=True)
    gen._mutation_executor = _ScriptedExecutor(matrix)  # noqa: SLF001
    try:
        with _recorded_stats(ag) as rec:
            gen._handle_add_assertions(tests)  # noqa: SLF001
    except Exception as exc:  # noqa: BLE001
        col.violation(f"C21|pipeline|{cfgname}|raises:{type(exc).__name__}",
                      f"_handle_add_assertions raised {exc!r} on {shape} {matrix}", data, rank=rank)
        return
    # ---- independent model of the matrix
    checked = [j for j, c in enumerate(matrix) if c is not None] if budget != 0 else []

    def first_timeout(c):
        for i, cell in enumerate(c):
            if cell[0] == "timeout":
                return i
        return None

    timed = [j for j in checked if first_timeout(matrix[j]) is not None]
    live = [j for j in checked if j not in timed]

    def pyn_kill(cell):
        # pynguin's own kill definition (any violated assertion or any exception); the score oracle
        # only checks which mutants are *counted*, not the kill definition
        return cell[0] in ("viol", "err", "xerr", "exc", "xok")

    killed = [j for j in live if any(pyn_kill(c) for c in matrix[j])]
    want = (len(killed) / len(live)) if live else 1.0
    scores = [v for (k, v) in rec if k == "MutationScore"]
    col.distinct("pipeline_scores", repr(scores))
    if len(scores) != 1:
        col.violation(f"C21|pipeline|{cfgname}|score-not-reported",
                      f"MutationScore tracked {len(scores)} times", data, rank=rank)
    else:
        s = scores[0]
        if not (0.0 <= s <= 1.0):
            col.violation(f"C21|pipeline|{cfgname}|score-out-of-range",
                          f"reported score {s!r} for {shape} {matrix}", data, rank=rank)
        elif abs(s - want) > 1e-12:
            col.violation(f"C21|pipeline|{cfgname}|score-counts-timedout-or-unchecked",
                          f"reported score {s!r}, expected {want!r} = {len(killed)} killed / {len(live)} "
                          f"checked and not timed out; matrix {matrix}", data, rank=rank)
    # ---- kept assertions
    kept = []
    for ti, t in enumerate(tests):
        ks = set()
        for si, st in enumerate(t.statements()):
            for a in st.assertions:
                if id(a) not in ident[ti]:
                    col.violation(f"C21|pipeline|{cfgname}|kept-not-subset",
                                  f"assertion {a!r} was not in the full set", data, rank=rank)
                elif ident[ti][id(a)][0] != si:
                    col.violation(f"C21|pipeline|{cfgname}|assertion-moved",
                                  f"assertion {a!r} moved to statement {si}", data, rank=rank)
                else:
                    ks.add(ident[ti][id(a)])
        kept.append(ks)

    def fails(cell, keyset):
        kind, payload = cell
        if kind in ("exc", "xerr"):
            return True          # an exception nobody expects fails the test whatever is asserted
        if kind in ("viol", "err"):
            return any(k in keyset for k in payload)
        return False

    fullkeys = [set(ident[ti].values()) for ti in range(len(tests))]
    lost = []
    for j in live:
        kf = any(fails(matrix[j][ti], fullkeys[ti]) for ti in range(len(tests)))
        kk = any(fails(matrix[j][ti], kept[ti]) for ti in range(len(tests)))
        if kf and not kk:
            lost.append(j)
    if lost:
        col.violation(f"C21|pipeline|{cfgname}|kill-lost-by-minimization",
                      f"mutants {lost} are killed by the full assertion set but not by the kept set "
                      f"{[sorted(k) for k in kept]}; shape {shape}, matrix {matrix}", data, rank=rank)
    nkept, nfull = sum(map(len, kept)), sum(map(len, fullkeys))
    col.distinct("pipeline_outcomes", (nkept, nfull, len(killed), len(timed), len(checked)))
    if 0 < nkept < nfull:
        col.distinct("nontrivial", ("pipeline", shape, repr(matrix), minimise))
        col.sample({"leg": "pipeline", "shape": shape, "matrix": matrix, "minimise": minimise,
                    "kept": [sorted(map(list, k)) for k in kept], "score": scores}, every=1499)


def _pipeline_cols(shape):
    """All distinct columns (one mutant x all tests) of a shape; None = invalid mutant."""
    per_test = [_cells_for(st) for st in PIPE_SHAPES[shape]]
    columns = [None] + [list(c) for c in itertools.product(*per_test)]
    # the in-process data model pads with None after the first timeout; cells after a
    # timeout are never consumed, so columns differing only there are the same case
    seen_cols, cols = set(), []
    for c in columns:
        if c is not None:
            cut = next((i for i, cell in enumerate(c) if cell[0] == "timeout"), None)
            if cut is not None:
                c = c[:cut + 1] + [("ok", ())] * (len(c) - cut - 1)
        k = repr(c)
        if k not in seen_cols:
            seen_cols.add(k)
            cols.append(c)
    return cols


def shard_pipeline(col, shape, max_mutants, lo, hi):
    """All matrices of ``shape`` with <= max_mutants mutants whose first column is cols[lo:hi]."""
    import pynguin.testcase.execution as ex
    from mc import pyn
    from pynguin.instrumentation.tracer import SubjectProperties

    pyn.reset_config()
    plain_exec = ex.TestCaseExecutor(SubjectProperties())
    cols = _pipeline_cols(shape)
    if lo == 0:
        for minimise in (True, False):
            run_pipeline_case(col, shape, [], minimise, plain_exec)
    for n in range(1, max_mutants + 1):
        for first in cols[lo:hi]:
            for rest in itertools.product(cols, repeat=n - 1):
                matrix = [first, *rest]
                for minimise in (True, False):
                    run_pipeline_case(col, shape, matrix, minimise, plain_exec)
                    if n == 1:
                        run_pipeline_case(col, shape, matrix, minimise, plain_exec, budget=0)
    col.distinct("pipeline_shapes", shape)


# =========================================================================== real leg
# Executor time-outs are wall-clock; the corpus (and its mutants) cannot loop, so every executor the
# leg touches gets a budget no machine load can exhaust: time is not allowed to decide a verdict.
GENEROUS_S = 120


def _relax(executor):
    """Give a (pynguin-built) executor the generous wall-clock budget."""
    for attr in ("_maximum_test_execution_timeout", "_test_execution_time_per_statement"):
        if not hasattr(executor, attr):
            raise HarnessError(f"{type(executor).__name__} has no attribute {attr}")
        setattr(executor, attr, GENEROUS_S)
    return executor


def _scratch():
    return tempfile.mkdtemp(prefix="c21_", dir="/dev/shm" if os.path.isdir("/dev/shm") else None)


def _snapshot(test):
    return [[a for a in st.assertions] for st in test.statements()]


def _render_with_assertions(test):
    import libcst as cst
    from pynguin.assertion.assertion_to_ast import assertion_to_cst

    lines = []
    for st in test.statements():
        lines.append(cst.Module(body=[st.node]).code.rstrip("\n"))
        for a in st.assertions:
            try:
                node = assertion_to_cst(a)
                lines.append("    # " + (cst.Module(body=[node]).code.strip() if node is not None else repr(a)))
            except Exception as exc:  # noqa: BLE001
                lines.append(f"    # {a!r} (unrenderable: {type(exc).__name__})")
    return "\n".join(lines)


def plain_eval(test, module, alias):
    """Independent evaluator: run the test on ``module`` and evaluate every assertion.

    Returns (list of (stmt, idx, class name, why) that do not hold, index of raising stmt or None).
    """
    import libcst as cst
    import pytest
    import pynguin.assertion.assertion as ass
    from pynguin.assertion.assertion_to_ast import assertion_to_cst

    ns = {"__builtins__": __builtins__, "pytest": pytest}
    ns.update(vars(module))
    ns[alias] = module
    bad = []
    raised_at = None
    for i, st in enumerate(test.statements()):
        if raised_at is not None:
            for j, a in enumerate(st.assertions):
                bad.append((i, j, type(a).__name__, "unreachable: an earlier statement raises"))
            continue
        exc = None
        try:
            exec(compile(cst.Module(body=[st.node]).code, "<c21-stmt>", "exec"), ns)  # noqa: S102
        except BaseException as e:  # noqa: BLE001
            exc = e
        for j, a in enumerate(st.assertions):
            if isinstance(a, ass.ExceptionAssertion):
                if exc is None:
                    bad.append((i, j, "ExceptionAssertion", "no exception raised"))
                elif type(exc).__name__ != a.exception_type_name:
                    bad.append((i, j, "ExceptionAssertion", f"raised {type(exc).__name__}"))
                continue
            try:
                node = assertion_to_cst(a)
                code = cst.Module(body=[node]).code
            except Exception as e:  # noqa: BLE001
                bad.append((i, j, type(a).__name__, f"unrenderable:{type(e).__name__}"))
                continue
            try:
                exec(compile(code, "<c21-assert>", "exec"), ns)  # noqa: S102
            except AssertionError:
                bad.append((i, j, type(a).__name__, f"fails: {code.strip()}"))
            except BaseException as e:  # noqa: BLE001
                bad.append((i, j, type(a).__name__, f"errors:{type(e).__name__}: {code.strip()}"))
        if exc is not None:
            raised_at = i
    return bad, raised_at


class RealLeg:
    """Everything one shard process needs for one corpus module."""

    def __init__(self, module, bound, scratch):
        import inspect

        import pynguin.configuration as config
        from mc import tcenum
        from pynguin.assertion.mutation_analysis.transformer import create_module
        from pynguin.utils.naming import get_module_alias
        import ast

        self.module = module
        self.bound = bound
        self.world = tcenum.World(module, scratch, config_over={
            "test_case_output__filter_assertions_in_subprocess": False, "seeding__seed": 0})
        self.config = config
        self.name = config.configuration.module_name
        self.alias = get_module_alias(self.name)
        self.source = inspect.getsource(self.world.sut.module)
        self.pristine = create_module(ast.parse(self.source), self.name)
        self.executor = self.world.sut.executor(maximum_test_execution_timeout=GENEROUS_S,
                                                test_execution_time_per_statement=GENEROUS_S)
        self._mutants = {}
        self._pop = None

    def close(self):
        self.world.close()

    # -------------------------------------------------------------- population
    def population(self):
        """[(test, [script name, choices])]: script ``ii`` = insert, insert with <= bound deviations;
        script ``a<k>`` = append accessible k (every accessible of the cluster) with <= 1 deviation."""
        from mc import tcenum

        if self._pop is None:
            seen, pop = set(), []
            scripts = [("ii", SCRIPT, self.bound)]
            scripts += [(f"a{k}", [("append", k)], 1) for k in range(len(self.world.accessibles))]
            for name, script, bound in scripts:
                found, _ = tcenum.enumerate_testcases(self.world, script, bound)
                for key, (t, ch) in found.items():
                    if t.size() > 0 and key not in seen:
                        seen.add(key)
                        pop.append((t, [name, list(ch)]))
            self._pop = pop
        return self._pop

    def rebuild(self, how):
        from mc.explore import Chooser

        name, choices = how
        script = SCRIPT if name == "ii" else [("append", int(name[1:]))]
        return self.world.run_script(script, Chooser(choices)).test_case

    # -------------------------------------------------------------- configuration
    def apply(self, cfgname):
        kind, strategy, order, minimise = CONFIGS[cfgname]
        out = self.config.configuration.test_case_output
        out.filter_assertions_in_subprocess = strategy == "SUBPROCESS-FILTER"
        if kind == "ma":
            out.mutation_strategy = self.config.MutationStrategy(strategy)
            out.mutation_order = order
            out.assertion_minimization = minimise
            out.maximum_mutants = -1
            out.maximum_mutation_time = -1
        return kind

    def mutants(self, cfgname):
        """Freshly created mutant modules of this configuration's strategy (own AST, own controller)."""
        kind, strategy, order, _ = CONFIGS[cfgname]
        key = (strategy, order)
        if key not in self._mutants:
            import pynguin.generator as gen
            from pynguin.assertion.mutation_analysis.controller import MutationController
            from pynguin.assertion.mutation_analysis.transformer import ParentNodeTransformer

            self.apply(cfgname)
            ctl = MutationController(gen._setup_mutant_generator(),  # noqa: SLF001
                                     ParentNodeTransformer.create_ast(self.source), self.world.sut.module)
            self._mutants[key] = [m for (m, _) in ctl.create_mutants()]
        return self._mutants[key]

    # -------------------------------------------------------------- executions
    def verify_on_original(self, test):
        import pynguin.assertion.assertiontraceobserver as ato

        with self.executor.temporarily_add_remote_observer(ato.RemoteAssertionVerificationObserver()):
            return self.executor.execute(test)

    def mutant_executor(self):
        import pynguin.assertion.assertiontraceobserver as ato
        import pynguin.testcase.execution as ex

        mex = ex.TestCaseExecutor(self.executor.subject_properties.sharing_registries(),
                                  maximum_test_execution_timeout=GENEROUS_S,
                                  test_execution_time_per_statement=GENEROUS_S)
        mex.add_remote_observer(ato.RemoteAssertionVerificationObserver())
        return mex

    def fails_on(self, mex, mutant, test):
        """(fails, timeout, pynguin-style killed) of ``test`` with its current assertions on ``mutant``."""
        import pynguin.assertion.assertion as ass

        mex.module_provider.add_mutated_version(module_name=self.name, mutated_module=mutant)
        try:
            r = mex.execute(test)
        finally:
            mex.module_provider.clear_mutated_modules()
        if r.timeout:
            return False, True, False
        tr = r.assertion_verification_trace
        stmts = test.statements()
        violated = False
        for d in (tr.failed, tr.error):
            for si, idxs in d.items():
                if idxs and si < len(stmts) and any(j < len(stmts[si].assertions) for j in idxs):
                    violated = True
        unexpected = False
        for si, exc in r.exceptions.items():
            expected = [a for a in stmts[si].assertions if isinstance(a, ass.ExceptionAssertion)]
            if not expected or all(type(exc).__name__ != a.exception_type_name for a in expected):
                unexpected = True
        pyn_killed = len(tr.error) > 0 or len(tr.failed) > 0 or r.has_test_exceptions()
        return (violated or unexpected), False, pyn_killed


def run_real_case(col, leg, cfgname, choice_lists, shuffle, tests=None, cache=None):
    """One suite through one generator configuration, then the oracles."""
    import pynguin.assertion.assertiongenerator as ag
    import pynguin.ga.testcasechromosome as tcc
    import pynguin.ga.testsuitechromosome as tsc
    from mc import rng
    from mc.explore import Chooser

    data = {"leg": "real", "module": leg.module, "bound": leg.bound, "config": cfgname,
            "choices": choice_lists, "shuffle": shuffle}
    rank = sum(sum(1 for x in c[1] if x) for c in choice_lists) + 10 * sum(
        len(c[1]) for c in choice_lists) + 1000 * len(choice_lists)
    if tests is None:
        tests = [leg.rebuild(c) for c in choice_lists]
    tests = [t.clone() for t in tests]
    kind = leg.apply(cfgname)
    col.count("evaluations")
    col.count(f"real_runs[{cfgname}]")
    suite = tsc.TestSuiteChromosome()
    for t in tests:
        suite.add_test_case_chromosome(tcc.TestCaseChromosome(t))
    tests = [c.test_case for c in suite.test_case_chromosomes]
    code = "\n---\n".join(t.to_code() for t in tests)

    def fp(sig):
        return f"C21|real|{cfgname}|{sig}"

    full = None
    summary = None
    try:
        chooser = Chooser([shuffle] if shuffle else [])
        if cfgname == "plain-subproc":
            # the subprocess executor ships the RNG state across the process boundary, which the
            # choice-point RNG cannot do; a singleton suite has no shuffle to own anyway
            import pynguin.utils.randomness as randomness
            randomness.RNG.seed(0)
            seam = contextlib.nullcontext()
        else:
            seam = rng.installed(rng.ChoiceRNG(chooser))
        with seam, _recorded_stats(ag) as rec:
            if kind == "plain":
                filt = ag.create_filtering_executor(leg.executor)
                if filt is not None:
                    _relax(filt)
                gen = ag.AssertionGenerator(leg.executor, filtering_executor=filt)
            else:
                import pynguin.generator as generator

                gen = generator._setup_mutation_analysis_assertion_generator(leg.executor)  # noqa: SLF001
                gen._testing = True  # noqa: SLF001  (keeps the summary for inspection)
                _relax(gen._mutation_executor)  # noqa: SLF001
                if gen._filtering_executor is not leg.executor:  # noqa: SLF001
                    _relax(gen._filtering_executor)  # noqa: SLF001
                snap = {}
                real_handle = gen._handle_add_assertions  # noqa: SLF001

                def handle(tcs, snap=snap, real_handle=real_handle):
                    snap["full"] = [_snapshot(t) for t in tcs]
                    return real_handle(tcs)

                gen._handle_add_assertions = handle  # noqa: SLF001
            traced = []
            real_add_for = gen._add_assertions_for  # noqa: SLF001

            def add_for(test_case, result, traced=traced, real_add_for=real_add_for):
                real_add_for(test_case, result)
                traced.append(sum(len(st.assertions) for st in test_case.statements()))

            gen._add_assertions_for = add_for  # noqa: SLF001
            suite.accept(gen)
            if shuffle and (not chooser.points or chooser.points[0][0] != "shuffle"):
                raise HarnessError(f"the first RNG draw of {cfgname} is not the filtering shuffle: "
                                   f"{chooser.points[:3]}")
            col.count("rng_draws", len(chooser.points))
            if kind != "plain":
                full = snap.get("full")
                summary = gen._testing_mutation_summary  # noqa: SLF001
    except HarnessError:
        raise
    except Exception as exc:  # noqa: BLE001
        import traceback
        tb = traceback.extract_tb(exc.__traceback__)
        where = next((f.name for f in reversed(tb) if "/pynguin/" in f.filename), "?")
        col.violation(fp(f"raises:{type(exc).__name__}"),
                      f"{cfgname} on module {leg.module} raised {exc!r} in {where}\n{code}", data, rank=rank)
        return
    kept = [_snapshot(t) for t in tests]
    nkept = sum(len(a) for k in kept for a in k)
    col.count("assertions_kept", nkept)
    after_filter = nkept if full is None else sum(len(a) for f in full for a in f)
    col.count("assertions_traced", sum(traced))
    col.count("assertions_removed_by_filtering_pass", sum(traced) - after_filter)
    for k in kept:
        for alist in k:
            for a in alist:
                col.distinct("assertion_classes_kept", type(a).__name__)

    # ---------------------------------------------------------------- oracle 1: kept assertions hold
    for ti, t in enumerate(tests):
        col.count("traces_validated_against_impl")
        stmts = t.statements()
        bad, _ = plain_eval(t, leg.pristine, leg.alias)
        for (si, j, cls, why) in bad:
            suffix = ":" + why.split(" ")[0] if why.startswith("unrenderable") else ""
            col.violation(fp(f"assertion-does-not-hold:{cls}{suffix}"),
                          f"kept assertion #{j} of statement {si} ({cls}) does not hold on a pristine copy of "
                          f"the module: {why}\n{_render_with_assertions(t)}", data, rank=rank)
        r = leg.verify_on_original(t)
        if r.timeout:
            # the observer crashed (or the test hung): attribute it to the assertion that cannot be rendered
            if not any(why.startswith("unrenderable") for (_, _, _, why) in bad):
                col.violation(fp("verification-aborted"),
                              f"re-executing the test with its kept assertions under the verification observer "
                              f"gave no result (timeout flag) on the unmutated module:\n"
                              f"{_render_with_assertions(t)}", data, rank=rank)
        else:
            tr = r.assertion_verification_trace
            for what, d in (("fails", tr.failed), ("errors", tr.error)):
                for si, idxs in d.items():
                    for j in idxs:
                        a = stmts[si].assertions[j] if si < len(stmts) and j < len(stmts[si].assertions) else None
                        col.violation(fp(f"assertion-does-not-hold:{type(a).__name__}"),
                                      f"kept assertion {a!r} at statement {si} {what} on the unmutated module "
                                      f"(verification observer):\n{_render_with_assertions(t)}",
                                      data, rank=rank)
        col.count("assertions_verified", sum(len(st.assertions) for st in stmts))
    if kind == "plain":
        col.distinct("real_outcomes", ("plain", nkept))
        if nkept:
            col.distinct("nontrivial", ("real", leg.module, code, cfgname))
        return

    # ---------------------------------------------------------------- oracle 2: score
    mutants = leg.mutants(cfgname)
    valid = [m for m in mutants if m is not None]
    scores = [v for (k, v) in rec if k == "MutationScore"]
    metrics = summary.get_metrics()
    if len(scores) != 1 or not (0.0 <= scores[0] <= 1.0) or not (0.0 <= metrics.get_score() <= 1.0):
        col.violation(fp("score-out-of-range"), f"reported MutationScore {scores!r}, metrics {metrics}\n{code}",
                      data, rank=rank)
    if metrics.num_created_mutants != len(valid):
        col.violation(fp("score-counts-unchecked"),
                      f"score computed over {metrics.num_created_mutants} mutants but {len(valid)} of "
                      f"{len(mutants)} mutants are valid modules\n{code}", data, rank=rank)

    # ---------------------------------------------------------------- oracle 3: kills preserved
    if full is None:
        col.violation(fp("raises:no-snapshot"), "the mutation filter was never invoked", data, rank=rank)
        return
    nfull = sum(len(a) for f in full for a in f)
    # kept must be a sub-list (by identity, same statement, same order)
    for ti, t in enumerate(tests):
        for si, alist in enumerate(kept[ti]):
            ids = [id(a) for a in full[ti][si]]
            pos = [ids.index(id(a)) if id(a) in ids else -1 for a in alist]
            if -1 in pos or pos != sorted(pos) or len(set(pos)) != len(pos):
                col.violation(fp("kept-not-subset"),
                              f"statement {si}: kept {alist!r} is not a sub-sequence of the full set "
                              f"{full[ti][si]!r}\n{code}", data, rank=rank)
    fkey = (CONFIGS[cfgname][1], CONFIGS[cfgname][2], repr(choice_lists))
    mex = leg.mutant_executor()
    fulltests = []
    for ti, t in enumerate(tests):
        ft = t.clone()
        for st, alist in zip(ft.statements(), full[ti]):
            st.assertions[:] = list(alist)
        fulltests.append(ft)
    fsig = repr([[[repr(a) for a in al] for al in f] for f in full])
    entry = cache.get(fkey) if cache is not None else None
    if entry is None or entry["sig"] != fsig:
        per = []
        for m in valid:
            res = [leg.fails_on(mex, m, ft) for ft in fulltests]
            col.count("mutant_executions", len(res))
            per.append((any(r[0] for r in res), any(r[1] for r in res), any(r[2] for r in res)))
        entry = {"sig": fsig, "per": per}
        if cache is not None:
            cache[fkey] = entry
    per = entry["per"]
    timed = [i for i, p in enumerate(per) if p[1]]
    killed_f = [i for i, p in enumerate(per) if p[0] and not p[1]]
    pyn_killed = [i for i, p in enumerate(per) if p[2] and not p[1]]
    if not timed and not summary.get_timeout():
        if metrics.num_killed_mutants != len(pyn_killed):
            col.violation(fp("score-killed-count-differs"),
                          f"summary reports {metrics.num_killed_mutants} killed mutants, a fresh re-execution "
                          f"of the suite with the full assertion set on fresh mutants kills {len(pyn_killed)} "
                          f"(same kill definition)\n{code}", data, rank=rank)
    timed_py = {info.mut_num for info in summary.get_timeout()}
    col.count("mutants_timed_out_in_pynguin", len(timed_py))
    lost = []
    if nkept != nfull:
        for i in killed_f:
            if i in timed_py:
                continue  # pynguin discarded this mutant as timed out: ignored on both sides
            res = [leg.fails_on(mex, valid[i], t) for t in tests]
            col.count("mutant_executions", len(res))
            if any(r[1] for r in res):
                continue
            if not any(r[0] for r in res):
                lost.append(i)
    if lost:
        col.violation(fp("kill-lost-by-minimization"),
                      f"mutants {lost} (of {len(valid)}) are killed by the suite with the full assertion set "
                      f"but not with the kept set.\nfull:\n"
                      + "\n---\n".join(_render_with_assertions(t) for t in fulltests)
                      + "\nkept:\n" + "\n---\n".join(_render_with_assertions(t) for t in tests),
                      data, rank=rank)
    col.distinct("real_outcomes", (cfgname, nkept, nfull, len(killed_f)))
    col.distinct("real_scores", repr(scores))
    if 0 < nkept < nfull:
        col.distinct("nontrivial", ("real", leg.module, code, cfgname))
        col.sample({"leg": "real", "module": leg.module, "config": cfgname, "suite": code,
                    "full_assertions": nfull, "kept_assertions": nkept, "mutants": len(valid),
                    "killed_by_full_set": len(killed_f), "score": scores}, every=37)
    if nkept < nfull:
        col.distinct("configs_with_effect", cfgname)


def suites_of(n):
    """Deterministic suites over a population of n tests.

    Returns [(indices, plain_only)]: every singleton and every fourth test paired with the test 5
    positions later go through every configuration; every adjacent pair (i, i+1) additionally goes
    through the (cheap) plain generator with both answers of the filtering shuffle.
    """
    singles = [((i,), False) for i in range(n)]
    pairs = [((i, (i + 5) % n), False) for i in range(0, n, 4) if n > 1 and (i + 5) % n != i]
    adjacent = [((i, (i + 1) % n), True) for i in range(n) if n > 2]
    return singles + pairs + adjacent


def shard_real(col, module, bound, cfgnames, lo, hi, stride):
    scratch = _scratch()
    leg = None
    try:
        leg = RealLeg(module, bound, scratch)
        pop = leg.population()
        suites = suites_of(len(pop))
        col.note(f"population[{module}]", len(pop))
        col.note(f"suites[{module}]", len(suites))
        cache = {}
        for si in range(lo, min(hi, len(suites)), 1):
            if si % stride[1] != stride[0]:
                continue
            idxs, plain_only = suites[si]
            tests = [pop[i][0] for i in idxs]
            choice_lists = [pop[i][1] for i in idxs]
            for t in tests:
                col.distinct("tests", t.to_code())
            cache.clear()
            if module in STATEFUL:
                leg._mutants.clear()  # noqa: SLF001
            for cfgname in cfgnames:
                if plain_only and cfgname != "plain":
                    continue
                if cfgname == "plain-subproc" and len(tests) > 1:
                    continue
                run_real_case(col, leg, cfgname, choice_lists, 0, tests=tests, cache=cache)
                if cfgname == "plain" and len(tests) > 1:
                    run_real_case(col, leg, cfgname, choice_lists, 1, tests=tests, cache=cache)
        col.distinct("modules", module)
    finally:
        if leg is not None:
            leg.close()
        shutil.rmtree(scratch, ignore_errors=True)


# =========================================================================== dispatch
def shard(col, kind, *args):
    {"setcover": shard_setcover, "metrics": shard_metrics, "pipeline": shard_pipeline,
     "real": shard_real}[kind](col, *args)


def run(ctx):
    from mc import par

    quick = ctx.quick
    modules = MODULES_QUICK if quick else MODULES_THOROUGH
    cfgnames = CONFIGS_QUICK if quick else CONFIGS_THOROUGH
    # ---- real-leg jobs: job k of K handles the suites with index = k (mod K) of its module
    per_module = 6 if quick else 24
    jobs = [("real", m, modules[m], cfgnames, 0, 10 ** 9, (k, per_module))
            for k in range(per_module) for m in modules]
    # ---- set cover shapes
    shapes = [(a, m) for a in range(5) for m in range(5)] + [(5, 3)]
    if not quick:
        shapes += [(5, 4), (6, 3)]
    sc_jobs = []
    for (a, m) in shapes:
        total = 1 << (a * m)
        chunk = 1 << 14
        for lo in range(0, total, chunk):
            sc_jobs.append(("setcover", a, m, lo, min(total, lo + chunk)))
    # ---- pipeline
    pl_jobs = []
    pl_bounds = {}
    for shape in PIPE_SHAPES:
        ncols = len(_pipeline_cols(shape))
        maxm = 3 if ncols <= 13 else 2
        if not quick:
            maxm += 1
        pl_bounds[shape] = maxm
        step = max(1, -(-ncols // (4 if quick else 12)))
        for lo in range(0, ncols, step):
            pl_jobs.append(("pipeline", shape, maxm, lo, min(ncols, lo + step)))
    all_jobs = jobs + pl_jobs + sc_jobs + [("metrics", 6)]
    par.run_shards("props.c21_assertions_hold:shard", all_jobs, ctx.workers, ctx)

    sets = ctx.col.sets
    cnt = ctx.col.counters
    ctx.note("setcover_shapes", [f"{a}x{m}" for a, m in shapes])
    ctx.note("setcover_layouts", list(LAYOUTS))
    ctx.note("real_modules_and_deviation_bounds", dict(modules))
    ctx.note("real_configs", cfgnames)
    ctx.note("pipeline_shapes_max_mutants", pl_bounds)
    def need(cond, msg):
        # a vacuity guard must not mask a verdict: with an unlisted violation in hand the run
        # already fails (exit 1); the failed guard is then recorded instead of raised
        if cond:
            return
        import os as _os
        from mc import findings
        known = findings.load(_os.environ.get("VERIF_HOME", _os.path.dirname(_os.path.dirname(
            _os.path.abspath(__file__)))))
        if any(findings.match(known, ID, fp_) is None for fp_ in ctx.col.violations):
            ctx.note("vacuity_guard_failed_next_to_violation", msg)
            return
        ctx.require(False, msg)

    expect_maps = sum(1 << (a * m) for a, m in shapes) * len(LAYOUTS)
    need(cnt.get("setcover_maps", 0) == expect_maps,
                f"set-cover space not fully enumerated: {cnt.get('setcover_maps')} != {expect_maps}")
    need(len(sets.get("setcover_outcomes", ())) > 3, "vacuous: too few distinct set-cover outcomes")
    need(len(sets.get("setcover_inputs", ())) > 15, "vacuous: too few distinct set-cover input classes")
    need(len(sets.get("metric_scores", ())) > 5, "vacuous: too few distinct scores")
    need(len(sets.get("pipeline_outcomes", ())) > 10, "vacuous: too few distinct pipeline outcomes")
    need(len(sets.get("pipeline_scores", ())) > 3, "vacuous: scripted pipeline scores do not vary")
    need(len(sets.get("modules", ())) == len(modules), "a corpus module was not explored")
    need(cnt.get("assertions_verified", 0) > 50, "vacuous: hardly any kept assertion was re-verified")
    need(len(sets.get("assertion_classes_kept", ())) >= 3,
                f"vacuous: kept assertion classes {len(sets.get('assertion_classes_kept', ()))} < 3")
    need(len(sets.get("real_outcomes", ())) > 5, "vacuous: too few distinct real outcomes")
    ma_cfgs = [c for c in cfgnames if CONFIGS[c][0] == "ma"]
    need(len(sets.get("configs_with_effect", ())) == len(ma_cfgs),
                "vacuous: a mutation-analysis configuration never removed an assertion")
    need(cnt.get("mutant_executions", 0) > 100, "vacuous: kill sets were not recomputed")
    need(cnt.get("assertions_removed_by_filtering_pass", 0) > 10,
         "vacuous: the filtering pass never removed an assertion")
    ctx.exhaustive = True
    ctx.rule = ("set cover: every kill map of the listed shapes (a assertions x m mutants) under 2 key layouts, "
                "non-trivial = the selection drops at least one assertion that kills something; "
                "metrics: every (created, killed, timed-out) <= 6 and every summary of <= 6 mutants over 4 states; "
                "pipeline: every (tests x mutants) result matrix over the cell alphabet for the listed test shapes, "
                "non-trivial = some but not all assertions kept; "
                f"real: every test case the real TestFactory builds with script insert,insert and <= d "
                f"non-default RNG answers on each module (d per module: {dict(modules)}), as singleton suites plus "
                "every fourth test paired with the "
                "test 5 positions later, through every generator configuration (adjacent pairs additionally through "
                "the plain generator with both filtering-shuffle answers), non-trivial = distinct "
                "(module, suite code, configuration) with at least one assertion kept and (for mutation "
                "analysis) at least one removed")
    ctx.assume("corpus modules are deterministic and keep no module-level state, except c21_flaky whose "
               "tick()/Box.created change monotonically with every execution (so that the filtering pass has "
               "something to remove); RNG answers (the filtering shuffle) range over identity and reversal")
    ctx.assume("kill = the test fails: a kept assertion is violated/errs under the real verification observer, "
               "or a statement raises an exception no kept ExceptionAssertion expects; timed-out mutants are "
               "excluded on both sides")


# =========================================================================== replay
def replay(ctx, data):
    from mc import pyn

    leg = data.get("leg")
    if leg == "setcover":
        import pynguin.assertion.assertiongenerator as ag
        keys = [tuple(k) for k in data["keys"]]
        kills = [frozenset(s) for s in data["kills"]]
        m = 1 + max([x for s in kills for x in s], default=-1)
        check_cover(ctx.col, ag._select_minimal_assertions, keys, kills, f"{len(keys)}x{m}")  # noqa: SLF001
    elif leg == "metrics":
        shard_metrics(ctx.col, 6)
    elif leg == "summary":
        check_summary(ctx.col, data["states"])
    elif leg == "pipeline":
        pyn.reset_config()
        matrix = [None if c is None else [(k, tuple(tuple(x) if isinstance(x, list) else x for x in p))
                                          for (k, p) in c] for c in data["matrix"]]
        run_pipeline_case(ctx.col, data["shape"], matrix, data["minimise"], budget=data.get("budget", -1))
    elif leg == "real":
        scratch = ctx.scratch()
        rl = RealLeg(data["module"], data["bound"], scratch)
        try:
            run_real_case(ctx.col, rl, data["config"], data["choices"], data["shuffle"], cache={})
        finally:
            rl.close()
    else:
        raise ValueError(f"unknown replay leg {leg!r}")
