"""C24 — exported tests round-trip through the seed parser.

E2 population suites per corpus module are exported by the real
``_export_chromosome`` (with SIMPLE assertions and without), the written source
is parsed back with the real ``parse_seed_module`` (initial-population seeding;
``create_assertions`` on/off) and the parsed test cases are exported again with
the same writer settings. Oracle on every round trip: every exported ``test_N``
yields a parsed test case, and the re-exported function bodies (statements and
assertions) equal the originally exported ones after whitespace normalisation.
"""

from __future__ import annotations

import itertools
import re

from mc import par, pipeline

ID = "C24"
LEVEL = "model_checking"


def bodies(text):
    """[(decorators, [normalised body lines])] per test function, in file order."""
    out, cur, deco = [], None, []
    for line in text.splitlines():
        if line.startswith("@"):
            deco.append(re.sub(r"\s+", " ", line.strip()))
            continue
        if re.match(r"^def test_\d+\(", line):
            cur = (tuple(deco), [])
            out.append(cur)
            deco = []
        elif cur is not None and (line.startswith("    ") or not line.strip()):
            if line.strip():
                cur[1].append(re.sub(r"\s+", " ", line.strip()))
        elif line.strip():
            cur, deco = None, []
    return out


def construct_of(line):
    if line.startswith("assert "):
        for k, v in (("pytest.approx", "assert-float"), ("isinstance", "assert-isinstance"), ("len(", "assert-len"),
                     ("__name__", "assert-typename"), (" is ", "assert-is")):
            if k in line:
                return v
        return "assert-equals"
    if line.startswith("with pytest.raises"):
        return "pytest.raises"
    m = re.match(r"^(var_\d+ = )?(.*)$", line)
    rhs = m.group(2)
    if re.match(r"^[\w.]+_\.\w+\.\w+\(", rhs) or re.match(r"^var_\d+\.\w+\(", rhs):
        return "method-call"
    if re.match(r"^[\w.]+_\.\w+\(", rhs):
        return "call"
    if re.match(r"^[\w.]+_\.\w+\.\w+$", rhs):
        return "enum-or-field"
    if rhs[:1] in "[({":
        return "collection"
    if rhs[:1] in "'\"" or rhs[:2] in ("b'", 'b"'):
        return "str-bytes"
    if re.match(r"^-?[\d.]", rhs) or rhs.startswith(("float(", "complex(")):
        return "number"
    if rhs in ("True", "False", "None"):
        return "const"
    return "other"


def shard(col, module, mode, pop_bound, limit, n_groups):
    import logging
    import shutil
    import tempfile

    logging.disable(logging.CRITICAL)
    import pynguin.configuration as config
    from pynguin.analyses.seeding import parse_seed_module

    scratch = tempfile.mkdtemp(prefix="c24_", dir="/dev/shm")
    try:
        pipe = pipeline.Pipe(module, scratch)
        tests, _ = pipe.population(bound=pop_bound, limit=limit)
        step = max(1, len(tests) // 6)
        core = tests[::step][:6]
        groups = [[t] for t in tests] + [list(g) for g in itertools.islice(itertools.combinations(core, 2),
                                                                           n_groups)]
        for gi, group in enumerate(groups):
            suite = pipe.suite(group)
            data = {"module": module, "mode": mode, "tests": [t.to_code() for t in group],
                    "pop_bound": pop_bound}
            try:
                if mode != "NONE":
                    pipe.generate_assertions(suite, mode)
                _, text = pipe.export(suite, name=f"a{gi}")
            except Exception:  # noqa: BLE001
                col.count("export_failed")   # C18/C20 territory
                continue
            orig = bodies(text)
            col.count("transitions")
            for create_assertions in ((True, False) if mode != "NONE" else (False,)):
                tag = f"{mode}|assertions={'on' if create_assertions else 'off'}"
                config.configuration.module_name = pipe.sut.name
                try:
                    parsed = parse_seed_module(text, pipe.world.cluster, create_assertions=create_assertions)
                except Exception as exc:  # noqa: BLE001
                    col.violation(f"C24|{tag}|parse-raises:{type(exc).__name__}", f"{module}: {exc!r}\n{text}",
                                  dict(data, text=text), rank=len(text))
                    continue
                col.count("transitions")
                col.count("traces_validated_against_impl")
                col.distinct("states", (module, mode, gi, create_assertions, len(parsed)))
                if len(parsed) != len(orig):
                    col.violation(f"C24|{tag}|test-function-lost",
                                  f"{module}: {len(orig)} exported test functions, {len(parsed)} parsed\n{text}",
                                  dict(data, text=text), rank=len(text))
                    continue
                suite2 = pipe.suite(parsed)
                # assertions live on the parsed statements; clone keeps them
                try:
                    _, text2 = pipe.export(suite2, name=f"b{gi}_{int(create_assertions)}")
                except Exception as exc:  # noqa: BLE001
                    col.violation(f"C24|{tag}|re-export-raises:{type(exc).__name__}",
                                  f"{module}: {exc!r}\n{text}", dict(data, text=text), rank=len(text))
                    continue
                again = bodies(text2)
                alias = pipe.sut.name + "_."

                def canon(lines, keep_asserts):
                    out = []
                    for l in lines:
                        if l.startswith("assert "):
                            if keep_asserts:
                                # `Color.RED` and `<alias>.Color.RED` name the same object: the exported
                                # file imports the public names AND binds the alias (lenient reading)
                                out.append(l.replace(alias, ""))
                        elif keep_asserts:
                            out.append(l)
                        else:
                            # without the assertions a binding may have become unused and been dropped
                            m = re.match(r"^var_\d+ = (.*)$", l)
                            out.append(m.group(1) if m else l)
                    # the assertions that follow one statement are side-effect free: their order among
                    # each other is immaterial (the parser re-attaches liftable ones to the statement and
                    # keeps the others as raw statements behind them) - sort each run of assert lines
                    res, run_ = [], []
                    for l in out:
                        if l.startswith("assert "):
                            run_.append(l)
                        else:
                            res.extend(sorted(run_))
                            run_ = []
                            res.append(l)
                    res.extend(sorted(run_))
                    return res

                for ti, ((d1, b1), (d2, b2)) in enumerate(zip(orig, again)):
                    want = canon(b1, create_assertions)
                    got = canon(b2, create_assertions)
                    if want != got:
                        missing = [l for l in want if l not in got]
                        extra = [l for l in got if l not in want]
                        probe = (missing or extra or ["order"])[0]
                        kind = "lost" if missing else "added" if extra else "reordered"
                        col.violation(f"C24|{tag}|{construct_of(probe)}|{kind}",
                                      f"{module} test_{ti}: exported\n  " + "\n  ".join(b1)
                                      + "\nafter parse + re-export\n  " + "\n  ".join(b2),
                                      dict(data, text=text), rank=len(text))
                    else:
                        col.count("functions_roundtripped")
                col.sample({"module": module, "mode": mode, "create_assertions": create_assertions,
                            "functions": len(orig), "example": orig[0][1][:6] if orig else []}, every=23)
        pipe.close()
    finally:
        shutil.rmtree(scratch, ignore_errors=True)


def run(ctx):
    modules = ["numeric", "containers", "shapes", "strings", "raising", "nested"]
    jobs = []
    for m in modules:
        jobs.append((m, "SIMPLE", 1 if ctx.quick else 2, 16 if ctx.quick else 80, 4 if ctx.quick else 12))
        jobs.append((m, "NONE", 1 if ctx.quick else 2, 16 if ctx.quick else 80, 4 if ctx.quick else 12))
    par.run_shards("props.c24_seed_roundtrip:shard", jobs, ctx.workers, ctx)
    ctx.require(ctx.col.counters.get("transitions", 0) > 100, "vacuous: too few round trips")
    ctx.exhaustive = True
    ctx.rule = ("suites = singletons and pairs of the enumerated population per module, exported with and "
                "without SIMPLE assertions; one parse + re-export per (suite, create_assertions) pair; "
                "states = (suite, mode, parsed size)")
    ctx.assume("comparison is on whitespace-normalised function bodies; decorators (xfail) are not compared "
               "because the parsed test cases are not re-executed before the second export")


def replay(ctx, data):
    from mc.ctx import Collector
    col = Collector()
    shard(col, data["module"], data["mode"], data.get("pop_bound", 1), 80, 12)
    ctx.merge(col)
