"""C35 — coverage reports agree with the computed coverage.

For each corpus module a pool of test cases (E2 population, reduced to those
with pairwise distinct execution traces) is executed once on the real executor;
EVERY subset of the pool (2^k suites) is fed to the real ``get_coverage_report``
with BRANCH+LINE, BRANCH only and LINE only. Oracle: report totals equal the
coverage values computed by ``fitness_metrics`` on the merged trace and by the
real suite coverage functions; per-line annotations sum to the totals; a line is
annotated covered exactly when its number is among the covered lines of the
suite's traces; per-line branch counts match the predicate outcomes recorded in
the traces; the HTML and Cobertura renderers run and the XML rates equal the
report's numbers.
"""

from __future__ import annotations

import itertools
import math
import re

from mc import par, pipeline

ID = "C35"
LEVEL = "exploration"

EXTRA_TESTS = {
    "floats": [
        ["var_0 = 0.1 + 0.2", "var_1 = M_.near(var_0)"],
        ["var_0 = 1.0000000000000002", "var_1 = M_.near(var_0)"],
        ["var_0 = 5e-324", "var_1 = M_.truthy(var_0)"],
        ["var_0 = 0.3", "var_1 = M_.near(var_0)"],
    ],
}


def shard(col, module, pool_size, pop_bound):
    import datetime
    import logging
    import shutil
    import tempfile
    from pathlib import Path

    logging.disable(logging.CRITICAL)
    import pynguin.configuration as config
    import pynguin.ga.computations as comp
    import pynguin.ga.fitness_metrics as fm
    import pynguin.ga.testsuitechromosome as tsc
    import pynguin.utils.report as report

    scratch = tempfile.mkdtemp(prefix="c35_", dir="/dev/shm")
    try:
        pipe = pipeline.Pipe(module, scratch)
        props = pipe.sut.props
        tests, _ = pipe.population(bound=pop_bound)
        pool, seen = [], set()
        # hand-made test cases first: values that miss a float predicate by a hair (branch distance of the
        # outcome NOT taken is tiny but positive), which the factory's value menus do not produce
        from mc import pyn
        alias = pipe.sut.name + "_"
        extra = [pyn.test_case(*[ln.replace("M_", alias) for ln in lines]) for lines in EXTRA_TESTS.get(module, ())]
        for t in extra + tests:
            chrom = pipe.world.chromosome(t.clone())
            res = pipe.executor.execute(chrom.test_case)
            chrom.set_last_execution_result(res)
            tr = res.execution_trace
            key = (tuple(sorted(tr.covered_line_ids)), tuple(sorted(tr.executed_predicates)),
                   tuple(sorted(k for k, v in tr.true_distances.items() if v == 0.0)),
                   tuple(sorted(k for k, v in tr.false_distances.items() if v == 0.0)),
                   tuple(sorted(tr.executed_code_objects)))
            if key not in seen:
                seen.add(key)
                pool.append(chrom)
            if len(pool) >= pool_size:
                break
        col.note(f"{module}_pool", len(pool))
        bfun = comp.TestSuiteBranchCoverageFunction(pipe.executor)
        lfun = comp.TestSuiteLineCoverageFunction(pipe.executor)
        metric_sets = [("BRANCH", "LINE"), ("BRANCH",), ("LINE",)]
        for r in range(0, len(pool) + 1):
            for subset in itertools.combinations(range(len(pool)), r):
                suite = tsc.TestSuiteChromosome()
                for i in subset:
                    suite.add_test_case_chromosome(pool[i])
                trace = fm.analyze_results([pool[i].get_last_execution_result() for i in subset])
                cov_lines = set(props.lineids_to_linenos(trace.covered_line_ids))
                existing_lines = {m.line_number for m in props.existing_lines.values()}
                for metrics in metric_sets:
                    mset = {getattr(config.CoverageMetric, m) for m in metrics}
                    data = {"module": module, "subset": list(subset), "metrics": list(metrics),
                            "pool_size": pool_size, "pop_bound": pop_bound}
                    col.count("evaluations")
                    tag = "+".join(metrics)

                    def bad(sig, what, data=data, tag=tag, r=r):
                        col.violation(f"C35|{tag}|{sig}", f"{module} subset {data['subset']}: {what}", data, rank=r)

                    try:
                        rep = report.get_coverage_report(suite, props, mset)
                    except Exception as exc:  # noqa: BLE001
                        bad(f"report-raises:{type(exc).__name__}", repr(exc)[:200])
                        continue
                    col.distinct("nontrivial", (module, tag, rep.branch_coverage, rep.line_coverage,
                                                rep.branches.covered, rep.lines.covered))
                    if "BRANCH" in metrics:
                        exp = fm.compute_branch_coverage(trace, props)
                        if not math.isclose(rep.branch_coverage, exp):
                            bad("branch-total-vs-computed", f"{rep.branch_coverage} vs {exp}")
                        if subset:
                            viaf = bfun.compute_coverage(suite)
                            if not math.isclose(rep.branch_coverage, viaf):
                                bad("branch-total-vs-coverage-function", f"{rep.branch_coverage} vs {viaf}")
                        num = rep.branches.covered + rep.branchless_code_objects.covered
                        den = rep.branches.existing + rep.branchless_code_objects.existing
                        if den and not math.isclose(num / den, rep.branch_coverage):
                            bad("branch-counts-vs-rate", f"{num}/{den} vs {rep.branch_coverage}")
                        sb = sum(a.branches.covered for a in rep.line_annotations), \
                            sum(a.branches.existing for a in rep.line_annotations)
                        if sb != (rep.branches.covered, rep.branches.existing):
                            bad("branch-annotations-do-not-sum", f"{sb} vs {rep.branches}")
                        sc = sum(a.branchless_code_objects.covered for a in rep.line_annotations), \
                            sum(a.branchless_code_objects.existing for a in rep.line_annotations)
                        if sc != (rep.branchless_code_objects.covered, rep.branchless_code_objects.existing):
                            bad("branchless-annotations-do-not-sum", f"{sc} vs {rep.branchless_code_objects}")
                        # per line: outcomes covered for the predicates on that line
                        per_line = {}
                        for pid, meta in props.existing_predicates.items():
                            c = int(trace.true_distances.get(pid, 1.0) == 0.0) + \
                                int(trace.false_distances.get(pid, 1.0) == 0.0)
                            cov, ex = per_line.get(meta.line_no, (0, 0))
                            per_line[meta.line_no] = (cov + c, ex + 2)
                        for a in rep.line_annotations:
                            want = per_line.get(a.line_no, (0, 0))
                            if (a.branches.covered, a.branches.existing) != want:
                                bad("line-branch-annotation-wrong",
                                    f"line {a.line_no}: {a.branches} vs {want}")
                                break
                    if "LINE" in metrics:
                        exp = fm.compute_line_coverage(trace, props)
                        if not math.isclose(rep.line_coverage, exp):
                            bad("line-total-vs-computed", f"{rep.line_coverage} vs {exp}")
                        if subset:
                            viaf = lfun.compute_coverage(suite)
                            if not math.isclose(rep.line_coverage, viaf):
                                bad("line-total-vs-coverage-function", f"{rep.line_coverage} vs {viaf}")
                        if rep.lines.existing and not math.isclose(rep.lines.covered / rep.lines.existing,
                                                                   rep.line_coverage):
                            bad("line-counts-vs-rate", f"{rep.lines} vs {rep.line_coverage}")
                        sl = sum(a.lines.covered for a in rep.line_annotations), \
                            sum(a.lines.existing for a in rep.line_annotations)
                        if sl != (rep.lines.covered, rep.lines.existing):
                            bad("line-annotations-do-not-sum", f"{sl} vs {rep.lines}")
                        for a in rep.line_annotations:
                            shown = a.lines.covered == 1
                            if shown != (a.line_no in cov_lines):
                                bad("line-shown-covered-mismatch", f"line {a.line_no}: shown {shown}")
                                break
                            if (a.lines.existing == 1) != (a.line_no in existing_lines):
                                bad("line-shown-existing-mismatch", f"line {a.line_no}")
                                break
                    # totals per line = sum of the categories
                    for a in rep.line_annotations:
                        t = (a.branches.covered + a.branchless_code_objects.covered + a.lines.covered,
                             a.branches.existing + a.branchless_code_objects.existing + a.lines.existing)
                        if (a.total.covered, a.total.existing) != t:
                            bad("line-total-annotation-wrong", f"line {a.line_no}: {a.total} vs {t}")
                            break
                    if r in (0, 1, len(pool)):
                        try:
                            out = Path(scratch) / "rep"
                            out.mkdir(exist_ok=True)
                            now = datetime.datetime(2026, 1, 1)  # noqa: DTZ001
                            report.render_coverage_report(rep, out / "c.html", now)
                            report.render_xml_coverage_report(rep, out / "c.xml", now)
                            xml = (out / "c.xml").read_text()
                            m = re.search(r'line-rate="([^"]*)"', xml)
                            b = re.search(r'branch-rate="([^"]*)"', xml)
                            if m and m.group(1) != f"{rep.line_coverage}":
                                bad("xml-line-rate-differs", f"{m.group(1)} vs {rep.line_coverage}")
                            if b and b.group(1) != f"{rep.branch_coverage}":
                                bad("xml-branch-rate-differs", f"{b.group(1)} vs {rep.branch_coverage}")
                            col.count("renders")
                        except Exception as exc:  # noqa: BLE001
                            bad(f"render-raises:{type(exc).__name__}", repr(exc)[:200])
                col.sample({"module": module, "subset": list(subset),
                            "covered_lines": sorted(cov_lines)}, every=37)
        pipe.close()
    finally:
        shutil.rmtree(scratch, ignore_errors=True)


def run(ctx):
    modules = ["numeric", "containers", "shapes", "lambdas", "floats"] if ctx.quick else \
        ["numeric", "containers", "shapes", "strings", "raising", "lambdas", "floats"]
    k = 6 if ctx.quick else 9
    par.run_shards("props.c35_report:shard", [(m, k, 1 if ctx.quick else 2) for m in modules],
                   ctx.workers, ctx)
    ctx.require(ctx.col.counters.get("renders", 0) > 5, "vacuous: renderers not exercised")
    ctx.exhaustive = True
    ctx.rule = (f"all subsets of a pool of <= {k} trace-distinct test cases per module x 3 metric subsets; "
                "non-trivial = distinct (module, metrics, coverage values, covered counts)")
    ctx.note("modules", modules)
    ctx.assume("pool test cases are executed once; suites share the execution results, as in the real pipeline")


def replay(ctx, data):
    from mc.ctx import Collector
    col = Collector()
    shard(col, data["module"], data.get("pool_size", 6), data.get("pop_bound", 1))
    ctx.merge(col)
