"""C27 — the test cluster holds exactly the module's eligible callables.

Bounded-exhaustive program/configuration enumeration (E3) against a reference.

*Programs.*  A 15-feature menu (public / ``_protected`` / ``__private`` /
``_Cls__mangled``-looking module functions, a function imported from a helper
module, a class re-exported from the helper, a class with public / protected /
private / dunder / static / class methods, a nested class, lambdas bound to
module-level names, an ``Enum``, a subclass of an imported base, a property, methods and a function wrapped by a
``functools.wraps`` decorator of the helper module, a
module-level constant + instance).  Every subset of the menu (quick: every
subset of size <= 4 plus the full set; thorough: all 2^15) is written as a real
module plus a real helper module under ``ctx.scratch()`` (unique module names
per case) and handed to the real ``generate_test_cluster``.

*Configurations.*  ``element_visibility`` in {PUBLIC, PROTECTED, ALL} x
ignore lists {none, ``ignore_methods=[t]`` for every present function / method /
``__init__`` name t, one pair, ``ignore_modules`` in {[helper], [sut],
[helper, sut]}} (ignore lists: quick on subsets of size <= 2 and the full set,
thorough on subsets of size <= 5 and the full set).

*Oracle.*  Computed from the *source text* with ``ast`` and the visibility
rules of the ``ElementVisibility`` / ``element_visibility`` /
``ignore_methods`` / ``ignore_modules`` doc strings — never from the imported
module objects: every definition is REQUIRED, OPTIONAL (the documentation
leaves latitude) or FORBIDDEN to be under test.  The cluster's
``accessible_objects_under_test`` is projected to ``(kind, qualified name,
defining module)`` and compared as a set.
"""

from __future__ import annotations

import ast
import importlib
import itertools
import os
import re
import sys

ID = "C27"
LEVEL = "exploration"

VISIBILITIES = ("PUBLIC", "PROTECTED", "ALL")

# --------------------------------------------------------------------------- programs
HELPER_SRC = '''\
import functools


def hfun(x):
    return x


def _hprot(x):
    return x


def traced(fn):
    @functools.wraps(fn)
    def wrapper(*args, **kwargs):
        return fn(*args, **kwargs)
    return wrapper


class HCls:
    def __init__(self, a):
        self.a = a

    def hmeth(self):
        return self.a

    def _hp(self):
        return 0


class HBase:
    def inherited(self):
        return 1

    def _inh_p(self):
        return 2
'''

# name -> source block; ``{H}`` is replaced by the helper module's name.
FEATURES = (
    ("pubfn", "def pub(x):\n    return x\n"),
    ("protfn", "def _prot(x):\n    return x\n"),
    ("privfn", "def __priv(x):\n    return x\n"),
    ("mangledfn", "def _Cls__mangled(x):\n    return x\n"),
    ("impfn", "from {H} import hfun\n"),
    ("reexcls", "from {H} import HCls\n"),
    ("cls", '''\
class Klass:
    def __init__(self, a):
        self.a = a

    def m(self):
        return 1

    def _p(self):
        return 2

    def __q(self):
        return 3

    def __len__(self):
        return 4

    @staticmethod
    def st(x):
        return x

    @classmethod
    def cm(cls):
        return cls(0)
'''),
    ("nested", '''\
class Outer:
    def __init__(self):
        self.v = 0

    def om(self):
        return 1

    class Inner:
        def __init__(self, b):
            self.b = b

        def im(self):
            return 2
'''),
    ("lambda", "lam = lambda x: x\n_plam = lambda x: x\n"),
    ("enum", '''\
from enum import Enum


class Color(Enum):
    RED = 1
    GREEN = 2

    def describe(self):
        return self.name
'''),
    ("subcls", '''\
from {H} import HBase


class Sub(HBase):
    def own(self):
        return 5
'''),
    ("property", '''\
class WithProp:
    def __init__(self):
        self._v = 1

    @property
    def val(self):
        return self._v

    def plain(self):
        return 0
'''),
    ("const", "CONST = 42\nINSTANCE = {'k': [1, 2]}\n"),
    # a class whose own name starts with an underscore: Python strips the leading underscores of the class
    # name when it mangles ``__step`` (-> ``_Impl__step``)
    ("protcls", '''\
class _Impl:
    def __init__(self, n):
        self.n = n

    def run(self):
        return self.n

    def __step(self):
        return 1
'''),
    # definitions wrapped by a well-behaved (functools.wraps) decorator that lives in ANOTHER module: the
    # wrapper keeps __module__ / __qualname__ of the definition, but its globals are the decorator's
    ("foreigndeco", '''\
import contextlib

from {H} import traced


class Deco:
    def __init__(self):
        self.v = 0

    @traced
    def wrapped(self):
        return 1

    @contextlib.contextmanager
    def managed(self):
        yield self

    def bare(self):
        return 2


@traced
def dfun(x):
    return x
'''),
)
FEATURE_NAMES = tuple(n for n, _ in FEATURES)
NF = len(FEATURES)
FULL = (1 << NF) - 1
USES_HELPER = {"impfn", "reexcls", "subcls", "foreigndeco"}


def feats_of(mask):
    return [FEATURE_NAMES[i] for i in range(NF) if mask >> i & 1]


def sut_source(mask, helper):
    parts = ['"""generated module under test (C27)."""\n']
    for i, (_, block) in enumerate(FEATURES):
        if mask >> i & 1:
            parts.append(block.replace("{H}", helper))
    return "\n\n".join(parts)


# --------------------------------------------------------------------------- oracle
REQ, OPT, FORBID = "required", "optional", "forbidden"

_MANGLED = re.compile(r"_[^\W_]\w*?__\w*")


def name_category(name):
    """Naming-convention class of an (unqualified, already mangled) name.

    From the doc strings of ``ElementVisibility``: protected = single leading
    underscore; private = double leading underscore, *including name-mangled*
    (``_Cls__x``); everything else is public.  ``__dunder__`` names are
    Python's public special-method protocol although they carry a double
    leading underscore: the text leaves them open -> "special".
    """
    if name.startswith("__") and name.endswith("__") and len(name) > 4:
        return "special"
    if name.startswith("__"):
        return "private"
    if _MANGLED.fullmatch(name) and not name.endswith("__"):
        return "private"
    if name.startswith("_"):
        return "protected"
    return "public"


def eligible(vis, cat):
    """True / False / None (= the documentation leaves it open)."""
    if cat == "public":
        return True
    if cat == "protected":
        return vis in ("PROTECTED", "ALL")
    if cat == "private":
        return vis == "ALL"
    # special methods: ALL includes every element; otherwise open
    return True if vis == "ALL" else None


def mangle(cls_name, name):
    if name.startswith("__") and not name.endswith("__"):
        stripped = cls_name.lstrip("_")
        if stripped:
            return f"_{stripped}{name}"
    return name


def _dotted(node):
    if isinstance(node, ast.Name):
        return node.id
    if isinstance(node, ast.Attribute):
        return f"{_dotted(node.value)}.{node.attr}"
    return "?"


class Item:
    __slots__ = ("kind", "qual", "label", "simple", "src_qual", "flavour", "cls_cat", "has_init",
                 "nested")

    def __init__(self, kind, qual, label, simple, **kw):
        self.kind, self.qual, self.label, self.simple = kind, qual, label, simple
        self.src_qual = kw.get("src_qual", qual)
        self.flavour = kw.get("flavour", "")
        self.cls_cat = kw.get("cls_cat", "public")
        self.has_init = kw.get("has_init", True)
        self.nested = kw.get("nested", False)


def analyse_source(src):
    """-> (items, imported_names, classes_with_imported_bases). Pure ``ast`` on the text."""
    tree = ast.parse(src)
    items, imported, foreign_based = [], set(), set()

    def walk_class(node, prefix, outer_cat, nested):
        qual = f"{prefix}{node.name}"
        bases = [_dotted(b) for b in node.bases]
        is_enum = any(b.split(".")[-1] in ("Enum", "IntEnum", "StrEnum", "Flag", "IntFlag")
                      for b in bases)
        if any(b.split(".")[0] in imported and not is_enum for b in bases):
            foreign_based.add(qual)
        cat = name_category(node.name)
        # a class is reachable by name only if every enclosing class is
        cls_cat = cat if outer_cat == "public" else outer_cat
        has_init = any(isinstance(n, ast.FunctionDef) and n.name == "__init__" for n in node.body)
        where = "nested-class" if nested else ("enum" if is_enum else "class")
        items.append(Item("enum" if is_enum else "constructor", qual, f"{where}.constructor",
                          node.name, cls_cat=cls_cat, has_init=has_init, nested=nested,
                          flavour="enum" if is_enum else "ctor"))
        for n in node.body:
            if isinstance(n, ast.ClassDef):
                walk_class(n, qual + ".", cls_cat, True)
            elif isinstance(n, (ast.FunctionDef, ast.AsyncFunctionDef)) and n.name != "__init__":
                decos = [_dotted(d) for d in n.decorator_list]
                if isinstance(n, ast.AsyncFunctionDef):
                    flavour = "async"
                elif any(d == "property" or d.endswith((".setter", ".getter", ".deleter"))
                         for d in decos):
                    flavour = "property"
                elif "staticmethod" in decos:
                    flavour = "staticmethod"
                elif "classmethod" in decos:
                    flavour = "classmethod"
                else:
                    flavour = "method"
                real = mangle(node.name, n.name)
                lab = flavour if flavour != "method" else f"method-{name_category(real)}"
                items.append(Item("method", f"{qual}.{real}", f"{where}.{lab}", real,
                                  src_qual=f"{qual}.{n.name}", flavour=flavour, cls_cat=cls_cat,
                                  nested=nested))

    for node in tree.body:
        if isinstance(node, ast.Import):
            for a in node.names:
                imported.add((a.asname or a.name).split(".")[0])
        elif isinstance(node, ast.ImportFrom):
            for a in node.names:
                imported.add(a.asname or a.name)
        elif isinstance(node, (ast.FunctionDef, ast.AsyncFunctionDef)):
            items.append(Item("function", node.name, f"function-{name_category(node.name)}",
                              node.name,
                              flavour="async" if isinstance(node, ast.AsyncFunctionDef) else "def"))
        elif isinstance(node, ast.ClassDef):
            walk_class(node, "", "public", False)
        elif (isinstance(node, ast.Assign) and len(node.targets) == 1
              and isinstance(node.targets[0], ast.Name) and isinstance(node.value, ast.Lambda)):
            nm = node.targets[0].id
            items.append(Item("function", nm, f"lambda-{name_category(nm)}", nm, flavour="lambda"))
    return items, imported, foreign_based


def status_of(item, mod, vis, ign_methods, ign_modules):
    """REQ / OPT / FORBID for one definition, plus whether an ignore list names it."""
    names = {f"{mod}.{item.qual}", f"{mod}.{item.src_qual}"}
    if mod in ign_modules:
        return FORBID, "ignore_modules"
    if item.flavour in ("ctor", "enum"):
        # a constructor's "name": the class name is the only name a test uses. The
        # documentation speaks of "elements (by naming convention)" without saying whether
        # a class is an element -> non-public class names are left open.
        if {f"{mod}.{item.qual}.__init__", f"{mod}.{item.qual}"} & set(ign_methods):
            return OPT, None
        if item.flavour == "enum" or not item.has_init or item.cls_cat != "public":
            return OPT, None
        return REQ, None
    if names & set(ign_methods):
        return FORBID, "ignore_methods"
    el = eligible(vis, name_category(item.simple))
    if el is False:
        return FORBID, None
    if item.flavour in ("lambda", "property", "async") or el is None or item.cls_cat != "public":
        return OPT, None
    # the owning class itself ignored by name -> open
    owner = item.qual.rpartition(".")[0]
    while owner:
        if f"{mod}.{owner}" in ign_methods:
            return OPT, None
        owner = owner.rpartition(".")[0]
    return REQ, None


def ignore_targets(items, mod, helper, uses_helper):
    """Every present name that can sensibly be put into ``ignore_methods`` (label, name)."""
    out = []
    for it in items:
        if it.flavour in ("ctor",):
            if it.has_init:
                out.append(("constructor-init", f"{mod}.{it.qual}.__init__"))
        elif it.flavour == "enum":
            continue
        elif it.flavour == "lambda":
            out.append(("lambda", f"{mod}.{it.qual}"))
        elif it.kind == "function":
            out.append(("function", f"{mod}.{it.qual}"))
        else:
            out.append((it.flavour, f"{mod}.{it.src_qual}"))
    if uses_helper:
        out.append(("foreign-function", f"{helper}.hfun"))
    return out


def configs_for(items, mod, helper, uses_helper):
    """[(tag, ignore_methods, ignore_modules)]; the first one is the plain configuration."""
    cfgs = [("none", [], [])]
    tg = ignore_targets(items, mod, helper, uses_helper)
    for lab, name in tg:
        cfgs.append((f"ignore_methods={lab}", [name], []))
    if len(tg) >= 2:
        cfgs.append((f"ignore_methods={tg[0][0]}+{tg[-1][0]}", [tg[0][1], tg[-1][1]], []))
    if uses_helper:
        cfgs.append(("ignore_modules=helper", [], [helper]))
    cfgs.append(("ignore_modules=sut", [], [mod]))
    if uses_helper:
        cfgs.append(("ignore_modules=helper+sut", [], [helper, mod]))
    return cfgs


# --------------------------------------------------------------------------- implementation side
def _fresh_config(vis, ign_methods, ign_modules, mod, path):
    import pynguin.configuration as config
    cfg = config.Configuration(
        algorithm=config.Algorithm.RANDOM,
        project_path=path,
        module_name=mod,
        test_case_output=config.TestCaseOutputConfiguration(output_path=os.path.join(path, "out")),
    )
    cfg.element_visibility = config.ElementVisibility[vis]
    cfg.ignore_methods = list(ign_methods)
    cfg.ignore_modules = list(ign_modules)
    cfg.subprocess_if_recommended = False
    config.configuration = cfg


def observe(cluster, helper):
    """Project the cluster: under-test set of (kind, qualname, defining modules) + foreign generators."""
    import inspect

    from pynguin.utils.generic.genericaccessibleobject import (
        GenericConstructor,
        GenericEnum,
        GenericFunction,
        GenericMethod,
    )
    seen = []
    for acc in cluster.accessible_objects_under_test:
        if isinstance(acc, GenericFunction):
            fn = inspect.unwrap(acc.callable)
            name = acc.function_name or getattr(fn, "__qualname__", "?")
            seen.append(("function", name, (getattr(fn, "__module__", None),)))
        elif isinstance(acc, GenericMethod):
            fn = acc.callable
            mods = (acc.owner.module, getattr(fn, "__module__", acc.owner.module))
            mname = acc.method_name or getattr(fn, "__name__", "?")
            seen.append(("method", f"{acc.owner.qualname}.{mname}", mods))
        elif isinstance(acc, GenericEnum):
            seen.append(("enum", acc.owner.qualname, (acc.owner.module,)))
        elif isinstance(acc, GenericConstructor):
            seen.append(("constructor", acc.owner.qualname, (acc.owner.module,)))
        else:
            seen.append((type(acc).__name__, str(acc), (getattr(acc.owner, "module", None),)))
    foreign_generators = 0
    for gens in cluster.generators.values():
        for g in gens:
            own = getattr(g, "owner", None)
            if (own is not None and own.module == helper) or (
                    isinstance(g, GenericFunction)
                    and getattr(g.callable, "__module__", None) == helper):
                foreign_generators += 1
    return seen, foreign_generators


class Sandbox:
    """A scratch directory on sys.path; every case gets module names of its own."""

    def __init__(self, path):
        self.path = path
        self.added = False

    def __enter__(self):
        sys.path.insert(0, self.path)
        self.added = True
        return self

    def __exit__(self, *exc):
        if self.added and self.path in sys.path:
            sys.path.remove(self.path)
        for k in [k for k in sys.modules if k.startswith(("c27m_", "c27h_"))]:
            del sys.modules[k]
        importlib.invalidate_caches()
        return False

    def write(self, mask, serial):
        mod, helper = f"c27m_{mask:04x}_{serial}", f"c27h_{mask:04x}_{serial}"
        src = sut_source(mask, helper)
        with open(os.path.join(self.path, mod + ".py"), "w") as fh:
            fh.write(src)
        with open(os.path.join(self.path, helper + ".py"), "w") as fh:
            fh.write(HELPER_SRC)
        importlib.invalidate_caches()
        return mod, helper, src

    def drop(self, mod, helper):
        import linecache
        for m in (mod, helper):
            sys.modules.pop(m, None)
            try:
                os.unlink(os.path.join(self.path, m + ".py"))
            except OSError:
                pass
        linecache.clearcache()


def evaluate(sb, mask, vis, cfg, serial):
    """One real ``generate_test_cluster`` call. -> (violations, observation summary)."""
    from pynguin.analyses.module import generate_test_cluster

    tag, ign_methods, ign_modules_kind = cfg
    mod, helper, src = sb.write(mask, serial)
    # ignore lists were built against placeholder names; rebind to this case's names
    ign_methods = [n.replace("{M}", mod).replace("{H}", helper) for n in ign_methods]
    ign_modules = [n.replace("{M}", mod).replace("{H}", helper) for n in ign_modules_kind]
    items, imported, foreign_based = analyse_source(src)
    _fresh_config(vis, ign_methods, ign_modules, mod, sb.path)
    try:
        try:
            cluster = generate_test_cluster(mod)
        except Exception as exc:  # noqa: BLE001
            return [("analysis", f"raises:{type(exc).__name__}", f"{type(exc).__name__}: {exc}")], None
        seen, foreign_generators = observe(cluster, helper)
    finally:
        sb.drop(mod, helper)

    by_key = {(it.kind, it.qual): it for it in items}
    # an Enum may be reported as kind "enum" only; a constructor only as "constructor"
    viol = []
    seen_keys = set()
    for kind, qual, mods in seen:
        seen_keys.add((kind, qual))
        it = by_key.get((kind, qual))
        foreign_rt = any(m != mod for m in mods)
        head = qual.split(".")[0]
        if it is None:
            owner = qual.rpartition(".")[0]
            if foreign_rt or head in imported or owner in foreign_based:
                lab = ("imported-function" if kind == "function" else
                       "inherited-method" if owner in foreign_based and head not in imported else
                       f"imported-class.{kind}")
                viol.append((lab, "foreign-marked-under-test",
                             f"{kind} {qual} (defined in {sorted(set(map(str, mods)))}) is under test"))
            else:
                viol.append((f"undefined.{kind}", "extra-under-test",
                             f"{kind} {qual} is under test but the source text does not define it"))
            continue
        if foreign_rt:
            viol.append((it.label, "foreign-marked-under-test",
                         f"{kind} {qual} reports defining module(s) {sorted(set(map(str, mods)))}"))
            continue
        st, why = status_of(it, mod, vis, ign_methods, ign_modules)
        if st == FORBID:
            sig = "extra-under-test" + (f":named-in-{why}" if why else "")
            viol.append((it.label, sig, f"{kind} {qual} is under test although "
                         + (f"{why} names it" if why else f"its name is not eligible under {vis}")))
    for it in items:
        st, _ = status_of(it, mod, vis, ign_methods, ign_modules)
        if st == REQ and (it.kind, it.qual) not in seen_keys:
            viol.append((it.label, "missing-under-test",
                         f"{it.kind} {it.qual} is defined in the module, eligible under {vis} and "
                         f"not ignored, but is not under test"))
    summary = {
        "under_test": sorted(f"{k}:{q}" for k, q in seen_keys),
        "n_required": sum(1 for it in items
                          if status_of(it, mod, vis, ign_methods, ign_modules)[0] == REQ),
        "n_forbidden": sum(1 for it in items
                           if status_of(it, mod, vis, ign_methods, ign_modules)[0] == FORBID),
        "foreign_generators": foreign_generators,
    }
    return viol, summary


def placeholder_configs(mask):
    """Configurations of one mask with ``{M}``/``{H}`` standing for the per-case module names."""
    src = sut_source(mask, "{H}").replace("{H}", "HPLACEHOLDER")
    items, _, _ = analyse_source(src)
    uses_helper = bool(USES_HELPER & set(feats_of(mask)))
    return configs_for(items, "{M}", "{H}", uses_helper)


def check_mask(col, sb, mask, with_ignores, counter):
    feats = feats_of(mask)
    cfgs = placeholder_configs(mask)
    if not with_ignores:
        cfgs = cfgs[:1]
    for vis in VISIBILITIES:
        baseline = set()
        for ci, cfg in enumerate(cfgs):
            counter[0] += 1
            viol, summary = evaluate(sb, mask, vis, cfg, counter[0])
            col.count("evaluations")
            col.count(f"evaluations_{vis}")
            tag = cfg[0]
            col.distinct("config_shapes", (vis, tag))
            if summary is not None:
                col.distinct("outcomes", (tuple(summary["under_test"])))
                key = (tuple(summary["under_test"]), vis, tag.split("=")[0])
                if summary["under_test"] and (summary["n_forbidden"] or tag != "none"):
                    col.distinct("nontrivial", key)
                col.count("required_items_checked", summary["n_required"])
                col.count("forbidden_items_checked", summary["n_forbidden"])
                col.count("foreign_generators_seen", summary["foreign_generators"])
                if summary["under_test"] and summary["n_forbidden"]:
                    col.sample({"features": feats, "visibility": vis, "ignore": tag,
                                "under_test": summary["under_test"],
                                "forbidden_definitions": summary["n_forbidden"]}, every=41)
            for lab, sig, what in viol:
                if ci == 0:
                    baseline.add((lab, sig))
                    full_sig = sig
                elif (lab, sig) in baseline:
                    # the same defect as without ignore lists: already reported there
                    col.count("violations_repeated_under_ignore")
                    continue
                else:
                    full_sig = sig if ":named-in-" in sig else f"{sig}:with-{tag}"
                col.violation(
                    f"C27|{vis}|{lab}|{full_sig}",
                    f"features {feats}, element_visibility={vis}, {tag}: {what}",
                    {"mask": mask, "features": feats, "visibility": vis, "config_index": ci,
                     "config": tag, "ignore_methods": cfg[1], "ignore_modules": cfg[2],
                     "source": sut_source(mask, "{H}"), "helper_source": HELPER_SRC,
                     "how": "write source as module {M}, helper_source as module {H}; set "
                            "config.configuration.element_visibility / ignore_methods / "
                            "ignore_modules; generate_test_cluster('{M}')"
                            ".accessible_objects_under_test"},
                    rank=len(feats) * 100 + ci)


# --------------------------------------------------------------------------- sharding
def shard(col, masks, with_ignores, scratch):
    os.makedirs(scratch, exist_ok=True)
    counter = [0]
    with Sandbox(scratch) as sb:
        for mask in masks:
            check_mask(col, sb, mask, with_ignores, counter)
            col.distinct("programs", mask)
            for f in feats_of(mask):
                col.distinct("features_used", f)


def masks_up_to(k):
    out = []
    for r in range(k + 1):
        for comb in itertools.combinations(range(NF), r):
            out.append(sum(1 << i for i in comb))
    return out


def run(ctx):
    base = ctx.scratch("verif_c27_")
    if ctx.quick:
        ign_masks = masks_up_to(2) + [FULL]
        plain_masks = [m for m in masks_up_to(4) if m not in set(ign_masks)]
        bound = ("all feature subsets of size <= 4 plus the full set x 3 visibilities; ignore "
                 "lists on all subsets of size <= 2 plus the full set")
    else:
        ign_masks = masks_up_to(5) + [FULL]
        plain_masks = [m for m in range(1 << NF) if m not in set(ign_masks)]
        bound = (f"all 2^{NF} feature subsets x 3 visibilities; ignore lists on all subsets of "
                 "size <= 5 plus the full set")
    # deterministic order; the seed only rotates the assignment of programs to shards
    rot = ctx.seed % 7

    def split(ms, n):
        ms = ms[rot:] + ms[:rot]
        return [ms[i::n] for i in range(n) if ms[i::n]]

    jobs = []
    nsh = ctx.workers * 4
    for i, part in enumerate(split(ign_masks, nsh)):
        jobs.append((part, True, os.path.join(base, f"i{i}")))
    for i, part in enumerate(split(plain_masks, nsh)):
        jobs.append((part, False, os.path.join(base, f"p{i}")))
    from mc.par import run_shards
    run_shards("props.c27_cluster:shard", jobs, ctx.workers, ctx)

    sets, cnt = ctx.col.sets, ctx.col.counters
    n_prog = len(ign_masks) + len(plain_masks)
    ctx.require(len(sets.get("programs", ())) == n_prog,
                f"not every program was evaluated ({len(sets.get('programs', ()))} of {n_prog})")
    ctx.require(len(sets.get("features_used", ())) == NF, "some feature never generated")
    ctx.require(len(sets.get("outcomes", ())) > 20, "vacuous: too few distinct under-test sets")
    ctx.require(cnt.get("required_items_checked", 0) > 0 and cnt.get("forbidden_items_checked", 0) > 0,
                "vacuous: oracle never required / never forbade anything")
    ctx.require(cnt.get("foreign_generators_seen", 0) > 0,
                "vacuous: imported helper definitions never reached the cluster")
    for vis in VISIBILITIES:
        ctx.require(cnt.get(f"evaluations_{vis}", 0) > 0, f"visibility {vis} never evaluated")
    ctx.note("features", list(FEATURE_NAMES))
    ctx.note("bound", bound)
    ctx.note("programs", n_prog)
    ctx.exhaustive = True
    ctx.rule = ("a case is (feature subset, visibility, ignore lists); distinct = distinct "
                "(under-test set, visibility, ignore-list kind); non-trivial = the under-test set is "
                "non-empty and the oracle forbids at least one present definition or an ignore list "
                "is active")
    ctx.assume("oracle is derived from the source text with ast and from the ElementVisibility / "
               "element_visibility / ignore_methods / ignore_modules doc strings; defining module of "
               "an accessible = __module__ of its function / owner class")
    ctx.assume("lenient readings (either answer accepted): constructor of a class without its own "
               "__init__; the Enum accessible; lambdas bound to an eligible name; property "
               "getters; __dunder__ methods under PUBLIC/PROTECTED; constructors and eligible "
               "methods of classes with a non-public name; a constructor whose __init__ is "
               "named in ignore_methods")
    ctx.assume("strict readings: a name-mangled-looking name (_Cls__x) is private (doc string of "
               "ElementVisibility.ALL); a lambda counts under the name it is bound to (the name the "
               "cluster itself reports); ignore_methods entries are '<module>.<qualified name>' "
               "for functions and methods alike (as consumed by instrumentation/machinery.py); "
               "static and class methods are methods; members of nested classes are defined in "
               "the module")
    ctx.assume("names starting with 'main' or 'test' (silently blacklisted by _is_blacklisted), "
               "coroutines, abstract classes and C extensions are outside the enumerated menu")


def replay(ctx, data):
    base = ctx.scratch("verif_c27_")
    counter = [0]
    with Sandbox(base) as sb:
        mask = data["mask"]
        cfgs = placeholder_configs(mask)
        todo = [cfgs[0]] if data["config_index"] == 0 else [cfgs[0], cfgs[data["config_index"]]]
        vis = data["visibility"]
        baseline = set()
        for ci, cfg in enumerate(todo):
            counter[0] += 1
            viol, _ = evaluate(sb, mask, vis, cfg, counter[0])
            for lab, sig, what in viol:
                if ci == 0:
                    baseline.add((lab, sig))
                    full = sig
                    if data["config_index"] != 0:
                        continue
                elif (lab, sig) in baseline:
                    continue
                else:
                    full = sig if ":named-in-" in sig else f"{sig}:with-{cfg[0]}"
                ctx.violation(f"C27|{vis}|{lab}|{full}", what, data, rank=0)
