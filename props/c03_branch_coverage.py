"""C03 -- reported branch outcomes equal the branches actually taken.

Bounded-exhaustive enumeration (E3) over ``mc.progen`` programs x the inputs of their menus, metric
sets BRANCH and BRANCH+LINE.  Ground truth: the uninstrumented code object (compiled under another
file name) run under ``sys.monitoring`` ``BRANCH`` / ``PY_START`` events restricted to the module's
code objects (``mc.groundtruth``).  The outcome of a BRANCH event is derived from the opcode at its
source offset, independently of pynguin's ``get_branch_type``: the *true* outcome of a predicate is
the one the interpreter takes when the condition tested by the jump instruction is true
(POP_JUMP_IF_TRUE / IF_NONE / IF_NOT_NONE: jump taken; POP_JUMP_IF_FALSE: fall through; FOR_ITER:
loop body entered).

Static checks per loaded module (second sentence of the property):

  S1  the k-th reachable conditional jump / FOR_ITER of a code object (offset order, ``dis``) has the k-th
      predicate (``node.index`` order) whose node ends in the same opcode on the same line; otherwise
      ``unregistered-jump|<opname>`` (a predicate without a jump: ``unregistered-jump|extra-predicate``);
  S2  ``BranchGoalPool`` holds BranchGoal(p, True) and BranchGoal(p, False) for every predicate and a
      BranchlessCodeObjectGoal for exactly the code objects without conditional jump (``goal-missing``);
  S3  the CFG edge labelled True of a predicate's node leads where the interpreter goes when the tested
      condition is true (``edge-label-inverted``): this is the label the CDG and the goal graph inherit.

Dynamic checks per execution (import trace merged by pynguin: expected = import events + call events):

  D1  BranchGoal(p, v).is_covered(result)  <=>  outcome v of the matched jump observed >= 1 time
      (``outcome-reported-not-taken`` / ``outcome-taken-not-reported``);
  D2  BranchlessCodeObjectGoal(c).is_covered(result)  <=>  code object c was entered (``branchless-wrong``);
  D3  the instrumented call ends like the plain one (``behaviour-differs``; root causes are C01's).

Fingerprint: ``C03|<metric set>|<jump opcode>[:<what produced the tested value>]|<signature>``.
"""

from __future__ import annotations

ID = "C03"
LEVEL = "exploration"

METRIC_SETS = [("BRANCH",), ("BRANCH", "LINE")]


class Visitor:
    def __init__(self):
        self.match = {}             # (key, rank) -> (pid, meta, jump)
        self.goals = {}             # (pid, value) -> BranchGoal
        self.branchless = {}        # key -> BranchlessCodeObjectGoal
        self.import_outcomes = {}
        self.per_program_outcomes = set()

    @staticmethod
    def _fp(metrics, op, sig):
        from mc.groundtruth import metrics_tag
        return f"C03|{metrics_tag(metrics)}|{op}|{sig}"

    def loaded(self, col, case, rep, metrics):
        from mc import groundtruth as gt
        import pynguin.ga.coveragegoals as bg

        col.count("modules_loaded")
        data = gt.case_data(case, metrics)
        rank = gt.case_rank(case)
        self.match, self.goals, self.branchless = {}, {}, {}
        plain = case.plain
        for k in rep.cid_of_key:
            if k not in plain.by_key:
                raise gt.GroundTruthError(f"{case.name}: registered code object {k} unknown to the plain compile")
        # ---- S1: jumps <-> predicates by rank
        unmatched_keys = set()
        for k, jumps in plain.jumps.items():
            live = [j for j in jumps if j["reachable"]]
            col.count("jumps_unreachable", len(jumps) - len(live))
            if k not in rep.cid_of_key:
                if live:
                    unmatched_keys.add(k)
                    col.violation(self._fp(metrics, live[0]["op"], "unregistered-jump"),
                                  f"{case.name}: code object {k[0]} is not registered at all; its "
                                  f"{len(live)} conditional jumps have no predicate", data, rank)
                continue
            preds = rep.preds.get(k, [])
            ok = len(preds) == len(live)
            if ok:
                for j, (_idx, pid, meta) in zip(live, preds):
                    if rep.predicate_last_op(meta) != j["op"] or meta.line_no != j["line"]:
                        ok = False
                        break
            if not ok:
                unmatched_keys.add(k)
                # blame the first jump (by line, opcode) that has no predicate partner
                have = [(rep.predicate_last_op(m), m.line_no) for _i, _p, m in preds]
                want = [(j["op"], j["line"]) for j in live]
                missing = list(want)
                for h in have:
                    if h in missing:
                        missing.remove(h)
                extra = list(have)
                for w in want:
                    if w in extra:
                        extra.remove(w)
                if missing:
                    col.violation(self._fp(metrics, missing[0][0], "unregistered-jump"),
                                  f"{case.name}: {k[0]} has conditional jumps {want} (op, line), predicates are "
                                  f"registered for {have}: {missing} have none", data, rank)
                elif extra:
                    col.violation(self._fp(metrics, "extra-predicate:" + str(extra[0][0]), "unregistered-jump"),
                                  f"{case.name}: {k[0]} has conditional jumps {want}, but predicates {have}: "
                                  f"{extra} belong to no conditional jump", data, rank)
                else:
                    col.violation(self._fp(metrics, want[0][0] if want else "none", "unregistered-jump"),
                                  f"{case.name}: {k[0]}: predicates {have} are not in the order of the jumps "
                                  f"{want}", data, rank)
                continue
            for j, (_idx, pid, meta) in zip(live, preds):
                self.match[(k, j["rank"])] = (pid, meta, j)
                col.count("predicates_matched")
                col.distinct("jump_ops", j["op"])
        self.unmatched_keys = unmatched_keys
        # ---- S2: goal pool
        pool = bg.BranchGoalPool(rep.sp)
        have_goals = {(g.predicate_id, g.value): g for g in pool.branch_goals}
        for pid, meta in rep.sp.existing_predicates.items():
            for v in (True, False):
                g = have_goals.get((pid, v))
                if g is None or g.code_object_id != meta.code_object_id:
                    col.violation(self._fp(metrics, rep.predicate_last_op(meta), "goal-missing"),
                                  f"{case.name}: BranchGoalPool has no goal for outcome {v} of predicate {pid} "
                                  f"(line {meta.line_no})", data, rank)
                else:
                    self.goals[(pid, v)] = g
        branchless = {g.code_object_id: g for g in pool.branchless_code_object_goals}
        for k in plain.by_key:
            if k not in rep.cid_of_key and not any(j["reachable"] for j in plain.jumps[k]):
                col.violation(self._fp(metrics, "code-object", "goal-missing"),
                              f"{case.name}: code object {k[0]} is not registered, so its entry is no goal", data, rank)
        for k, cid in rep.cid_of_key.items():
            has_jumps = any(j["reachable"] for j in plain.jumps[k])
            if not has_jumps and k not in unmatched_keys:
                if cid not in branchless:
                    col.violation(self._fp(metrics, "code-object", "goal-missing"),
                                  f"{case.name}: code object {k[0]} has no conditional jump but no "
                                  "BranchlessCodeObjectGoal", data, rank)
                else:
                    self.branchless[k] = branchless[cid]
            elif has_jumps and cid in branchless and k not in unmatched_keys:
                col.violation(self._fp(metrics, "code-object", "branchless-wrong"),
                              f"{case.name}: code object {k[0]} has conditional jumps but is offered as a "
                              "branch-less code object goal", data, rank)
        # ---- S3: CFG edge labels
        for (k, _r), (pid, meta, j) in sorted(self.match.items()):
            where = rep.true_edge_is_jump(k, meta)
            col.count("edge_labels_checked")
            if where is None:
                col.count("edge_labels_undecidable")
                continue
            if where != gt.true_means_jump(j["op"]):
                col.violation(self._fp(metrics, j["op"], "edge-label-inverted"),
                              f"{case.name}: predicate {pid} ({j['op']} at line {j['line']} of {k[0]}): the CFG edge "
                              f"labelled True goes to the {'jump target' if where else 'fall-through block'}, the "
                              f"interpreter goes to the {'jump target' if not where else 'fall-through block'} when "
                              "the tested condition is true (and the tracer reports that as the True outcome)",
                              data, rank)
        # ---- import trace as its own execution
        self.import_outcomes = plain.outcomes(case.imp)
        imp_trace = rep.sut.tracer.import_trace
        col.count("evaluations")
        col.count("import_executions")

        class _R:
            execution_trace = imp_trace

        self._dynamic(col, case, rep, metrics, None, _R, self.import_outcomes, case.imp.entered, "module body")

    def _dynamic(self, col, case, rep, metrics, idx, result, outcomes, entered, where):
        from mc import groundtruth as gt

        data = gt.case_data(case, metrics, idx)
        rank = gt.case_rank(case, idx or 0)
        for (k, r), (pid, meta, j) in sorted(self.match.items()):
            seen = outcomes.get((k, r), set())
            for v in (True, False):
                g = self.goals.get((pid, v))
                if g is None:
                    continue
                col.count("goal_verdicts")
                try:
                    got = bool(g.is_covered(result))
                except Exception as exc:  # noqa: BLE001
                    col.violation(self._fp(metrics, j["op"], f"is_covered-raises:{type(exc).__name__}"),
                                  f"{case.name} {where}: BranchGoal({pid}, {v}).is_covered raised {exc!r}", data, rank)
                    continue
                want = v in seen
                opk = f"{j['op']}:{j['tests']}"
                if got and not want:
                    col.violation(self._fp(metrics, opk, "outcome-reported-not-taken"),
                                  f"{case.name} {where}: outcome {v} of the {j['op']} at line {j['line']} of {k[0]} "
                                  f"is reported as covered, the interpreter only took {sorted(seen)}", data, rank)
                elif want and not got:
                    col.violation(self._fp(metrics, opk, "outcome-taken-not-reported"),
                                  f"{case.name} {where}: the interpreter took outcome {v} of the {j['op']} at line "
                                  f"{j['line']} of {k[0]} (all taken: {sorted(seen)}), it is not reported as covered",
                                  data, rank)
                if want:
                    col.distinct("outcomes_seen", (j["op"], v))
        for k, g in sorted(self.branchless.items()):
            col.count("goal_verdicts")
            got = bool(g.is_covered(result))
            want = k in entered
            if got != want:
                col.violation(self._fp(metrics, "code-object", "branchless-wrong"),
                              f"{case.name} {where}: branch-less code object {k[0]} "
                              f"{'was' if want else 'was not'} entered, goal is_covered = {got}", data, rank)
            if want:
                col.count("branchless_entered")
        # events of jumps that have no predicate partner are already reported by S1

    def call(self, col, case, rep, metrics, idx, result):
        a_src, b_src, ev = case.inputs[idx]
        out = case.plain.outcomes(ev)
        merged = {k: set(v) for k, v in self.import_outcomes.items()}
        for k, v in out.items():
            merged.setdefault(k, set()).update(v)
        self._dynamic(col, case, rep, metrics, idx, result, merged, ev.entered | case.imp.entered,
                      f"f({a_src}, {b_src})")
        sig = tuple(sorted((k, r, tuple(sorted(v))) for (k, r), v in out.items()))
        col.distinct("outcomes", sig)
        self.per_program_outcomes.add(sig)

    def behaviour_differs(self, col, case, rep, metrics, idx, plain_exc, inst_exc):
        """The instrumented call ends differently from the plain one: whatever is reported cannot be what the
        interpreter did on the uninstrumented code.  (Root causes belong to C01; reported here under its own
        signature so that it is never silently skipped.)"""
        from mc import groundtruth as gt

        a_src, b_src, _ev = case.inputs[idx]
        col.violation(self._fp(metrics, f"{plain_exc}->{inst_exc}", "behaviour-differs"),
                      f"{case.name} f({a_src}, {b_src}): the plain call ends with {plain_exc}, the instrumented "
                      f"call with {inst_exc}", gt.case_data(case, metrics, idx), gt.case_rank(case, idx))


def check_program(col, name, source, meta, metric_sets, scratch, sample_every=97):
    from mc import groundtruth as gt
    from mc import progen

    case = gt.Case(name, source, meta, second_oracle=False)
    col.count("programs")
    v = Visitor()
    gt.drive(col, case, metric_sets, scratch, v, "C03")
    sig = progen.dis_signature(case.plain.code, "ops")
    col.distinct("shapes", sig)
    if len(v.per_program_outcomes) >= 2:
        col.distinct("nontrivial", sig)
    for op in progen.opcodes(case.plain.code):
        col.distinct("opcodes", op)
    ev_tags = progen.construct_evidence(case.plain.code)
    for t in meta.get("constructs", ()):
        col.distinct("constructs_declared", t)
        if t in ev_tags:
            col.distinct("constructs_evidenced", t)
    njumps = sum(1 for js in case.plain.jumps.values() for j in js if j["reachable"])
    col.sample({"program": name, "source": source, "inputs": len(case.inputs), "conditional_jumps": njumps,
                "distinct_outcome_vectors": len(v.per_program_outcomes)}, every=sample_every)


def shard(col, kind, min_size, max_size, max_depth, k, nshards, metric_sets, second_oracle=True, root=None):
    import os
    import shutil
    import tempfile

    from mc import progen

    if root is None:
        scratch = tempfile.mkdtemp(prefix="c03_", dir="/dev/shm")
    else:                       # a sub-directory of the run's ctx.scratch(): removed by the parent whatever happens
        scratch = os.path.join(root, f"{kind}_{min_size}_{max_size}_{k}_{nshards}")
        os.makedirs(scratch, exist_ok=True)
    try:
        if kind == "seeds":
            progs = [p for i, p in enumerate(progen.seeds()) if i % nshards == k]
        else:
            progs = (p for i, p in enumerate(progen.programs(max_size, max_depth))
                     if i % nshards == k and p[2]["size"] >= min_size)
        for name, source, meta in progs:
            col.count(f"{kind}_programs")
            if kind != "seeds":
                col.count(f"grammar_programs_size{meta['size']}[{'|'.join('+'.join(m) for m in metric_sets)}]")
            check_program(col, name, source, meta, metric_sets, scratch)
    finally:
        shutil.rmtree(scratch, ignore_errors=True)


# ------------------------------------------------------------------ executor leg
def shard_executor(col, module, metrics, limit):
    """Branch-less code objects through the REAL test-case executor.

    Every enumerated test case of a corpus module (E2 population) is executed by the real
    ``TestCaseExecutor`` under the given metric set while ``sys.monitoring`` PY_START events
    (global, all threads) record which code objects the interpreter entered.  Oracle (statement:
    "the entry of a branch-less code object is reported as covered exactly when the interpreter
    took it"): for EVERY code object that ``SubjectProperties.branch_less_code_objects`` lists as a
    goal after the execution, ``id in trace.executed_code_objects`` <=> the interpreter entered it
    during this execution (or while importing the module: the import trace is merged into every
    trace).  Test-statement code objects registered by the checked-coverage transformer are part
    of that universe for as long as pynguin counts them as goals."""
    import logging
    import shutil
    import sys
    import tempfile

    from mc import pipeline

    logging.disable(logging.CRITICAL)
    scratch = tempfile.mkdtemp(prefix="c03x_", dir="/dev/shm")
    mon = sys.monitoring
    tool = next(t for t in (3, 4, 5, 2) if mon.get_tool(t) is None)
    mon.use_tool_id(tool, "verif-c03-executor")
    started = {}   # id(code) -> code (instrumented code objects may hold unhashable constants)
    mon.register_callback(tool, mon.events.PY_START, lambda code, off: started.__setitem__(id(code), code))
    tag = "+".join(metrics)
    try:
        pipe = pipeline.Pipe(module, scratch, coverage=tuple(metrics))
        props = pipe.sut.props
        import_cos = set(pipe.sut.tracer.import_trace.executed_code_objects)
        tests, _ = pipe.population(bound=1, limit=limit)
        for t in tests:
            started.clear()
            mon.set_events(tool, mon.events.PY_START)
            try:
                res = pipe.executor.execute(t)
            finally:
                mon.set_events(tool, 0)
            entered = set(started)   # ids; the code objects stay alive in `started` / the registry
            reported = set(res.execution_trace.executed_code_objects)
            col.count("evaluations")
            col.count("executor_executions")
            for coid in props.branch_less_code_objects:
                meta = props.existing_code_objects[coid]
                code = meta.code_object
                was_entered = id(code) in entered or coid in import_cos
                col.count("branchless_goals_checked")
                kind = "test-statement" if code.co_filename == "<ast>" else "sut"
                col.distinct("outcomes_executor", (module, tag, kind, was_entered, coid in reported))
                if was_entered and coid not in reported:
                    col.violation(f"C03|{tag}|executor|branchless-code-object-entered-not-reported|{kind}",
                                  f"{module}: code object {coid} ({code.co_filename}:{code.co_name}) is listed by "
                                  f"branch_less_code_objects and was entered while executing\n{t.to_code()}"
                                  "but is not in executed_code_objects (branch coverage counts it as uncovered)",
                                  {"leg": "executor", "module": module, "metrics": list(metrics),
                                   "test": t.to_code(), "limit": limit}, rank=t.size())
                elif coid in reported and not was_entered:
                    col.violation(f"C03|{tag}|executor|branchless-code-object-reported-not-entered|{kind}",
                                  f"{module}: code object {coid} ({code.co_filename}:{code.co_name})\n{t.to_code()}",
                                  {"leg": "executor", "module": module, "metrics": list(metrics),
                                   "test": t.to_code(), "limit": limit}, rank=t.size())
        pipe.close()
    finally:
        mon.set_events(tool, 0)
        mon.register_callback(tool, mon.events.PY_START, None)
        mon.free_tool_id(tool)
        shutil.rmtree(scratch, ignore_errors=True)


def plan(ctx):
    """Jobs of a tier: (label, [shard args]).  quick: sizes <= 2 and the seeds under every metric set, size 3
    under the primary metric set only; thorough: sizes <= 3 at depth <= 3 and the seeds under every metric set."""
    w = max(1, ctx.workers)
    all_sets = [list(m) for m in METRIC_SETS]
    jobs = []
    if ctx.quick:
        n, d = 3, 2
        jobs += [("grammar", 3, 3, d, k, 2 * w, all_sets[:1], True) for k in range(2 * w)]
        jobs += [("grammar", 1, 2, d, k, w // 2 or 1, all_sets, True) for k in range(w // 2 or 1)]
    else:
        n, d = 3, 3
        jobs += [("grammar", 1, 3, d, k, 4 * w, all_sets, True) for k in range(4 * w)]
    jobs += [("seeds", 0, 0, 0, k, 4, all_sets, True) for k in range(4)]
    root = ctx.scratch(prefix="c03_")
    jobs = [(*j, root) for j in jobs]
    if ctx.seed:
        r = ctx.seed % len(jobs)
        jobs = jobs[r:] + jobs[:r]
    return n, d, jobs


def run(ctx):
    from mc import par, progen

    n, d, jobs = plan(ctx)
    par.run_shards("props.c03_branch_coverage:shard", jobs, ctx.workers, ctx)
    xmods = ["numeric", "shapes", "lambdas"] if ctx.quick else ["numeric", "shapes", "lambdas", "containers",
                                                               "raising", "enums"]
    xsets = [("BRANCH",), ("BRANCH", "CHECKED"), ("BRANCH", "LINE", "CHECKED")]
    par.run_shards("props.c03_branch_coverage:shard_executor",
                   [(m, ms, 25 if ctx.quick else 120) for m in xmods for ms in xsets], ctx.workers, ctx)
    ctx.require(ctx.col.counters.get("branchless_goals_checked", 0) > 50, "vacuous: executor leg checked nothing")

    c = ctx.col.counters
    soft_failed = []
    import os

    from mc import findings
    known = findings.load(os.environ.get("VERIF_HOME", os.path.dirname(os.path.dirname(os.path.abspath(__file__)))))
    unlisted = [fp for fp in ctx.col.violations if findings.match(known, ID, fp) is None]

    def guard(cond, msg, hard=False):
        """Vacuity guards are harness errors -- unless a violation was found: a replayable counterexample is a
        verdict on its own (exit 1) and must not be hidden behind exit 2; with only known findings, or none, the
        guards are hard.  Oracle self-consistency and completeness of the enumeration are always hard."""
        if cond:
            return
        if hard or not unlisted:
            ctx.require(False, msg)
        soft_failed.append(msg)

    total = sum(progen.count(n, d).values())
    ctx.note("progen_bound", {"max_size": n, "max_depth": d, "programs_in_bound": total,
                              "seeds": len(progen.seeds())})
    ctx.note("metric_sets", ["+".join(m) for m in METRIC_SETS])
    ctx.note("tier_plan", "sizes<=2 + seeds: all metric sets; size 3: BRANCH only" if ctx.quick
             else "sizes<=3 (depth<=3) + seeds: all metric sets")
    guard(c.get("grammar_programs", 0) == total, f"grammar programs {c.get('grammar_programs')} != {total}", hard=True)
    guard(c.get("seeds_programs", 0) == len(progen.seeds()), "not every seed was checked", hard=True)
    guard(c.get("instrumentation_failures", 0) * 10 <= c.get("modules_loaded", 0),
                "too many modules could not be instrumented: "
                f"{[v for k, v in ctx.col.notes.items() if k.startswith('instrumentation_failure')]}")
    guard(len(ctx.col.sets.get("outcomes", ())) > 50, "vacuous: too few distinct outcome vectors")
    guard(len(ctx.col.sets.get("nontrivial", ())) >= 2, "vacuous: no program whose inputs differ in outcomes")
    for op in ("POP_JUMP_IF_TRUE", "POP_JUMP_IF_FALSE", "POP_JUMP_IF_NONE", "POP_JUMP_IF_NOT_NONE", "FOR_ITER"):
        for v in (True, False):
            from mc.ctx import h64
            guard(h64((op, v)) in ctx.col.sets.get("outcomes_seen", set()),
                        f"vacuity: outcome {v} of {op} never taken by any input")
    guard(c.get("branchless_entered", 0) > 0, "vacuity: no branch-less code object entered")
    guard(c.get("edge_labels_checked", 0) > c.get("edge_labels_undecidable", 0) * 2,
                "most CFG edge labels could not be located")
    declared = ctx.col.sets.get("constructs_declared", set())
    evidenced = ctx.col.sets.get("constructs_evidenced", set())
    guard(declared and declared == evidenced,
                f"vacuity: constructs never seen in dis output: {sorted(declared - evidenced)}")
    if soft_failed:
        ctx.note("vacuity_guards_failed_but_violations_found", soft_failed)
    ctx.exhaustive = True
    ctx.rule = ("one evaluation = one execution (module import or one call f(a, b)) under one metric set, all of "
                "whose branch goals' covered verdicts are compared with the interpreter's BRANCH events; "
                "non-trivial = distinct bytecode shape (dis_signature 'ops') of a program for which two inputs "
                "take different outcome vectors")
    ctx.assume("CPython 3.12 sys.monitoring BRANCH events on the uninstrumented code are the reference; the outcome "
               "of an event is read off the jump opcode (see module docstring), not off pynguin's get_branch_type")
    ctx.assume("conditional jumps in statically unreachable bytecode (CPython keeps some) can never be taken and "
               "are not required to be predicates")
    ctx.assume("a call whose exception type differs between plain and instrumented run is reported once as "
               "behaviour-differs (root cause: C01) and its coverage is not compared further")
    ctx.assume("programs whose module cannot be loaded through the import hook (instrumentation raises) are "
               "counted (instrumentation_failures) and skipped: 'instrumenting never raises' is C01's subject")
    ctx.assume("no coverage exclusions configured (C08); distances are C04's subject, only distance == 0 is used")


def replay(ctx, data):
    import shutil
    import tempfile

    if data.get("leg") == "executor":
        from mc.ctx import Collector
        col = Collector()
        shard_executor(col, data["module"], tuple(data["metrics"]), data.get("limit", 25))
        ctx.merge(col)
        return
    scratch = tempfile.mkdtemp(prefix="c03r_", dir="/dev/shm")
    try:
        meta = dict(data.get("meta") or {})
        meta.setdefault("constructs", [])
        check_program(ctx.col, data["name"], data["source"], meta, [tuple(data["metrics"])], scratch)
    finally:
        shutil.rmtree(scratch, ignore_errors=True)
