SPECIFICATION Spec
CONSTANTS
  Tmax = 4
  T0s <- MCT0s
INVARIANTS
  TypeOK
  RestartsDecrease
  RestartsBounded
  NoRestartWithoutSearchTime
  SuccessOnlyIfDelivered
  SubprocessAfterRestart
  ReturnedIffDone
