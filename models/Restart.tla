---------------------------- MODULE Restart ----------------------------
(* Abstract model of pynguin's master/worker restart protocol
   (master_worker/master.py: RunningTask.get_result / _restart /
   _adjust_search_time_after_crash; client.py: PynguinClient.run_pynguin).

   The master blocks in recv(). The environment (the worker) either delivers
   a result, delivers an error result, or dies / garbles the pipe after some
   elapsed wall-clock time. `hist` records every environment action, so every
   terminal state is one complete behaviour; mc/ c33 replays each of them
   against the real RunningTask / MasterProcess / PynguinClient with a fake
   process, pipe and clock and compares spawnT, spawnForce and final.        *)
EXTENDS Integers, Sequences, TLC

CONSTANTS Tmax,      \* largest initial search time explored
          T0s        \* set of initial values of maximum_search_time (-1 = not set)

VARIABLES T,          \* configuration.stopping.maximum_search_time of the task
          restarts,   \* RunningTask._restart_count
          force,      \* RunningTask._force_subprocess_mode
          phase,      \* "running" (master blocked in recv) or "done"
          final,      \* ReturnCode reported by run_pynguin ("none" while running)
          hist,       \* environment actions so far
          spawnT,     \* maximum_search_time each spawned worker was given
          spawnForce  \* configuration.subprocess each spawned worker was given

vars == <<T, restarts, force, phase, final, hist, spawnT, spawnForce>>

Elapsed == {"tiny", "one", "two", "huge"}   \* 0 < tiny < 1 second; huge >= any T
Codes   == {"OK", "NO_TESTS_GENERATED", "SETUP_FAILED"}

\* int(max(t - e, 0.0)) for an integer t >= 1
Remaining(t, e) ==
    LET raw == CASE e = "tiny" -> t - 1
                 [] e = "one"  -> t - 1
                 [] e = "two"  -> t - 2
                 [] e = "huge" -> 0
    IN IF raw < 0 THEN 0 ELSE raw

Init == /\ T \in T0s
        /\ restarts = 0 /\ force = FALSE /\ phase = "running" /\ final = "none"
        /\ hist = <<>> /\ spawnT = <<T>> /\ spawnForce = <<FALSE>>

\* the worker sends WorkerResult(OK, return_code = rc)
Deliver(rc) ==
    /\ phase = "running"
    /\ phase' = "done" /\ final' = rc
    /\ hist' = Append(hist, <<"deliver", rc>>)
    /\ UNCHANGED <<T, restarts, force, spawnT, spawnForce>>

\* the worker caught an exception and sends WorkerResult(OK, return_code = None)
DeliverError ==
    /\ phase = "running"
    /\ phase' = "done" /\ final' = "NO_TESTS_GENERATED"
    /\ hist' = Append(hist, <<"error-result", "none">>)
    /\ UNCHANGED <<T, restarts, force, spawnT, spawnForce>>

\* recv() raises (EOFError because the worker died, or anything else)
Crash(kind, e) ==
    /\ phase = "running"
    /\ LET T1 == IF T > 0 THEN Remaining(T, e) ELSE T IN
       /\ T' = T1
       /\ hist' = Append(hist, <<kind, e>>)
       /\ IF T1 <= 0
            THEN /\ phase' = "done" /\ final' = "NO_TESTS_GENERATED"
                 /\ UNCHANGED <<restarts, force, spawnT, spawnForce>>
            ELSE /\ phase' = "running" /\ final' = "none"
                 /\ restarts' = restarts + 1
                 /\ force' = TRUE
                 /\ spawnT' = Append(spawnT, T1)
                 /\ spawnForce' = Append(spawnForce, TRUE)

Done == phase = "done" /\ UNCHANGED vars

Next == \/ \E rc \in Codes : Deliver(rc)
        \/ DeliverError
        \/ \E k \in {"died", "garbage"}, e \in Elapsed : Crash(k, e)
        \/ Done

Spec == Init /\ [][Next]_vars

----------------------------------------------------------------------------
TypeOK == /\ T \in -1..Tmax /\ restarts \in 0..(Tmax + 1) /\ phase \in {"running", "done"}

\* restarts happen only while search time remains and strictly reduce it
RestartsDecrease ==
    \A i \in 2..Len(spawnT) : spawnT[i] > 0 /\ spawnT[i] < spawnT[i - 1]

\* hence the number of restarts is bounded by the initial search time
RestartsBounded == restarts <= Tmax /\ Len(spawnT) = restarts + 1

\* no restart at all without a positive search time (iteration budgets)
NoRestartWithoutSearchTime == (spawnT[1] <= 0) => restarts = 0

\* success is reported only if some worker delivered it
SuccessOnlyIfDelivered ==
    (final = "OK") => \E i \in 1..Len(hist) : hist[i] = <<"deliver", "OK">>

\* after the first restart the task runs in subprocess mode
SubprocessAfterRestart == (restarts >= 1) => force

\* the command has returned exactly when phase = "done"
ReturnedIffDone == (phase = "done") <=> (final # "none")
=============================================================================
