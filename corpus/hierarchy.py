"""A small class hierarchy: parameters typed with a base class can be satisfied by several subclasses."""


class Animal:
    def __init__(self, legs: int = 4) -> None:
        self.legs = legs

    def speak(self) -> str:
        return "..."


class Dog(Animal):
    def speak(self) -> str:
        return "woof"


class Cat(Animal):
    def speak(self) -> str:
        return "meow"


class Bird(Animal):
    def __init__(self) -> None:
        super().__init__(2)

    def speak(self) -> str:
        return "tweet"


class Puppy(Dog):
    def speak(self) -> str:
        return "yip"


def loudest(a: Animal, b: Animal) -> str:
    if len(a.speak()) >= len(b.speak()):
        return a.speak()
    return b.speak()


def legs(xs: list[Animal]) -> int:
    total = 0
    for x in xs:
        total += x.legs
    return total


def sounds(a: Animal) -> set[str]:
    """A set of strings: its iteration order depends on the string hashes."""
    return {a.speak(), "zoo", "pen", "cage"}
