"""String predicates."""


def kind(s: str) -> int:
    if s.startswith("ab"):
        return 1
    if s.isdigit():
        return 2
    if s == "":
        return 3
    return 0


def shout(s: str, times: int = 1) -> str:
    return (s.upper() + "!") * (times % 3)


def initials(words: list[str]) -> str:
    return "".join(w[0] for w in words if w)


def quote(s: str) -> str:
    return "'" + s + '"' + "\\"
