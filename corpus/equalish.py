"""Results of different types that compare equal (False == 0 == 0.0, True == 1)."""


def flag(x: int) -> bool:
    return x != 0


def ident(x: int) -> int:
    if x > 100:
        return 100
    return x


def ratio(x: int) -> float:
    return x / 2


def yes(x: int) -> bool:
    return x == 0


def succ(x: int) -> int:
    return x + 1


def blob(x: int) -> str:
    """A result whose pickled form is larger than a pipe buffer (64 KiB)."""
    return "pynguin " * 16384
