"""Values that change on every execution in the same process (C21 only).

Deterministic as a function of the process history, but every observation of
``tick()`` / ``Box.created`` differs from the previous one: assertions on them
are exactly what the assertion generator's filtering re-execution must remove,
while the assertions on the stable values must survive and hold.
"""

_calls = 0


def tick() -> int:
    global _calls
    _calls += 1
    return _calls


def stable(x: int) -> int:
    if x < 0:
        return -x
    return x * 2 + 1


class Box:
    created = 0

    def __init__(self, v: int) -> None:
        Box.created += 1
        self.v = v

    def get(self) -> int:
        return self.v + 1


class Thing:
    """Changes value AND shape between executions: on one statement a value assertion fails while another
    one errors (the attribute is gone) in the same filtering re-execution."""

    made = 0

    def __init__(self) -> None:
        Thing.made += 1
        self.serial = Thing.made
        if Thing.made == 1:      # only the very first instance of the process (not periodic: a value
            self.first = 1       # that comes back every other execution defeats ANY finite re-execution filter)
