"""Custom exceptions of the module under test: several public ones and a module-private one.

The functions come first so that the enumeration's neutral choices (first accessible object) reach them."""


def guard(x: int) -> int:
    if x <= 0:
        raise _Closed("not positive")
    return x


def check(x: int) -> int:
    """Range check.

    Raises:
        BelowRangeError: if not positive
        AboveRangeError: if above ten
    """
    if x <= 0:
        raise BelowRangeError(x)
    if x > 10:
        raise AboveRangeError(x)
    return x


def small(x: int) -> int:
    if abs(x) > 3:
        raise NotSmallError("not small")
    return x


class Ledger:
    def __init__(self) -> None:
        self.closed = False
        self.total = 0

    def close(self) -> bool:
        self.closed = True
        return self.closed

    def deposit(self, amount: int) -> int:
        if self.closed:
            raise _Closed("closed")
        self.total += amount % 7
        return self.total


class BelowRangeError(Exception):
    pass


class AboveRangeError(Exception):
    pass


class NotSmallError(ValueError):
    pass


class _Closed(Exception):
    pass
