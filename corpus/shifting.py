"""The statement that raises moves when a statement is inserted before it."""


class Acc:
    def __init__(self) -> None:
        self.n = 0

    def inc(self) -> int:
        self.n += 1
        return self.n

    def check(self) -> int:
        if self.n == 0:
            raise KeyError("empty")
        if self.n > 1:
            raise ValueError("many")
        return self.n
