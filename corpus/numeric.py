"""Numeric branches."""


def classify(x: int, y: int) -> str:
    if x < 0:
        return "neg"
    if x == y:
        return "same"
    if x > 10 and y > 10:
        return "big"
    return "other"


def ratio(a: float, b: float) -> float:
    if b == 0:
        return 0.0
    return a / b


def clamp(v: int, lo: int = 0, hi: int = 5) -> int:
    if v < lo:
        return lo
    if v > hi:
        return hi
    return v


def total(n: int) -> int:
    s = 0
    for i in range(n % 4):
        s += i
    return s
