"""Container state."""


class Stack:
    def __init__(self) -> None:
        self.items: list[int] = []

    def push(self, x: int) -> int:
        self.items.append(x)
        return len(self.items)

    def pop(self) -> int:
        if not self.items:
            raise IndexError("empty")
        return self.items.pop()

    def peek(self) -> int | None:
        return self.items[-1] if self.items else None

    @property
    def size(self) -> int:
        return len(self.items)


def pairs(n: int) -> dict[str, int]:
    return {str(i): i for i in range(n % 3)}


def uniq(xs: list[int]) -> set[int]:
    return set(xs)


def head(xs: tuple[int, ...]) -> int:
    if len(xs) == 0:
        return -1
    return xs[0]
