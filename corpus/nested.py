"""A class nested in a class, reachable only as the result of a method."""


class Warehouse:
    class Slot:
        def __init__(self, idx: int) -> None:
            self.idx = idx

        def label(self) -> str:
            return f"slot-{self.idx}"

    def __init__(self, size: int = 2) -> None:
        self.size = size

    def first_slot(self) -> "Warehouse.Slot":
        return Warehouse.Slot(0)

    def count(self) -> int:
        return self.size


class Node:
    """Fields that are only assertable through isinstance / len (an object, a list of floats)."""

    def __init__(self, value: int = 0) -> None:
        self.value = value
        self.next: "Node | None" = None
        self.weights = [0.5, 1.5]

    def link(self, other: "Node") -> "Node":
        self.next = other
        return self


def make() -> Warehouse:
    return Warehouse(3)


def size(w: Warehouse) -> int:
    return w.size


def grow(w: Warehouse, size: int) -> int:
    """A parameter that is named like a public function of the module."""
    w.size += size % 3
    return w.size


def cursor(w: Warehouse) -> object:
    """A value that is only assertable by its type name (a type of another module)."""
    import itertools

    return itertools.count(w.size)


def apply(f: "typing.Callable[[int], int]", x: int) -> int:
    """A callable parameter (the factory emits a lambda for it)."""
    try:
        return f(x)
    except TypeError:
        return -1


import typing  # noqa: E402
