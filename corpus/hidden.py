"""Private object state: a call changes what a LATER call returns, and nothing else shows it."""


class Counter:
    def __init__(self) -> None:
        self._n = 0

    def bump(self) -> None:
        self._n += 1

    def total(self) -> int:
        return self._n
