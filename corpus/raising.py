"""Declared and undeclared exceptions."""


def checked(x: int) -> int:
    """Check.

    Raises:
        ValueError: if negative
    """
    if x < 0:
        raise ValueError("negative")
    return x + 1


def unchecked(xs: list[int], i: int) -> int:
    return xs[i]


def div(a: int, b: int) -> int:
    return a // b


def key(d: dict[str, int], k: str) -> int:
    return d[k]
