"""Lines that hold both a predicate and the first line of another code object."""


def pick(xs: list[int], absolute: bool) -> int:
    return max(xs, key=lambda v: abs(v)) if absolute else max(xs)


def shortest(words: list[str], strip: bool) -> str:
    if strip and words: return min(words, key=lambda w: len(w.strip()))  # noqa: E701
    return min(words, key=len) if words else ""


def scale(x: int) -> int: return x * 2 if x > 0 else (lambda: -x)()  # noqa: E704


PAIR = (lambda v: v + 1, lambda v: v - 1)  # two branch-less code objects that start on one line


def apply(i: int, v: int) -> int:
    return PAIR[i % 2](v)
