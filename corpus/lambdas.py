"""Lines that hold both a predicate and the first line of another code object."""


def pick(xs: list[int], absolute: bool) -> int:
    return max(xs, key=lambda v: abs(v)) if absolute else max(xs)


def shortest(words: list[str], strip: bool) -> str:
    if strip and words: return min(words, key=lambda w: len(w.strip()))  # noqa: E701
    return min(words, key=len) if words else ""


def scale(x: int) -> int: return x * 2 if x > 0 else (lambda: -x)()  # noqa: E704
