"""Object state decides which branch a later call takes (coverage of a test depends on statement order)."""


class Switch:
    def __init__(self) -> None:
        self.on = True
        self.flip()

    def flip(self) -> bool:
        self.on = not self.on
        return self.on

    def read(self) -> str:
        if self.on:
            return "on"
        return "off"
