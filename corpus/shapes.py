"""Class with state, enum, float-returning code."""
import enum


class Color(enum.Enum):
    RED = 1
    GREEN = 2


class Account:
    limit = 100

    def __init__(self, owner: str, balance: float = 0.0) -> None:
        self.owner = owner
        self.balance = balance

    def deposit(self, amount: float) -> float:
        if amount <= 0:
            raise ValueError("amount")
        self.balance += amount
        return self.balance

    def color(self) -> Color:
        return Color.RED if self.balance < 10 else Color.GREEN


def paint(c: Color) -> str:
    if c is Color.RED:
        return "r"
    return "g"


def neg_zero(x: float) -> float:
    return -0.0 * abs(x)


def weird(flag: bool) -> float:
    return float("inf") if flag else float("nan")


def half(x: int) -> float:
    return x / 2
