"""An Enum with several plain methods (hidden from dir() by EnumType) next to ordinary callables."""
import enum


class Colour(enum.Enum):
    RED = 1
    GREEN = 2
    BLUE = 3

    def is_warm(self) -> bool:
        return self is Colour.RED

    def shifted(self, by: int) -> int:
        if by > 2:
            return self.value + by
        return self.value - by

    def label(self) -> str:
        return self.name.lower()

    def mix(self, other: "Colour") -> int:
        if other is self:
            return self.value
        return self.value * 10 + other.value


class Palette:
    def __init__(self, first: Colour) -> None:
        self.items = [first]

    def add(self, colour: Colour) -> int:
        self.items.append(colour)
        return len(self.items)

    def warm_count(self) -> int:
        return sum(1 for c in self.items if c.is_warm())


def brightest(a: Colour, b: Colour) -> Colour:
    return a if a.value >= b.value else b
