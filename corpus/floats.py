"""Float predicates that can be missed by a hair (tiny positive branch distances)."""


def near(x: float) -> int:
    if x == 0.3:
        return 1
    if x <= 1.0:
        return 2
    return 3


def truthy(x: float) -> int:
    if x:
        return 1
    return 0
