#!/bin/bash
# setup_cmd: nothing is compiled or downloaded. Checks import pynguin straight
# from /repo/src in a fresh interpreter on every run. This script only verifies
# that the tool chain the checks rely on is present and that the framework imports.
set -e
cd "$(dirname "${BASH_SOURCE[0]}")"
/venv/bin/python -c "import pynguin, networkx, libcst, bytecode; print('pynguin from', pynguin.__file__)"
PYTHONPATH=. /venv/bin/python -c "import mc.main, mc.explore, mc.par, mc.findings, mc.evidence; print('framework ok')"
if [ -f models/Restart.tla ]; then (cd models && tla-sany Restart.tla >/dev/null && echo "sany ok"); fi
python3-vt -c "import jsonschema,json; jsonschema.validate(json.load(open('MANIFEST.json')), json.load(open('/root/.vp/MANIFEST.schema.json'))); print('manifest ok')"
