#!/usr/bin/env python3
"""Rewrite the table of quick-tier wall times in DESIGN.md section 16 from scratch/final_quick.log."""
import os
import re

HERE = os.path.dirname(os.path.dirname(os.path.abspath(__file__)))
rows = []
for line in open(os.path.join(HERE, "scratch", "final_quick.log")):
    m = re.match(r"(C\d\d) rc=(\d+) wall=(\d+)s .*?\{(.*?)\}.*known=(\d+) unlisted=(\d+)", line)
    if m:
        cid, rc, wall, cov, known, unl = m.groups()
        big = re.findall(r"'(states|evaluations)': (\d+)", cov)
        rows.append(f"| {cid} | {wall} | {', '.join(f'{k} {int(v):,}' for k, v in big[:1])} | {known} | {unl} | {rc} |")
table = ["<!-- runtime-table -->",
         "| check | wall s (quick, final run) | explored | known findings reproduced | unlisted | exit |",
         "|---|---|---|---|---|---|", *rows, "<!-- /runtime-table -->"]
p = os.path.join(HERE, "DESIGN.md")
s = open(p).read()
if "<!-- runtime-table -->" in s:
    s = re.sub(r"<!-- runtime-table -->.*?<!-- /runtime-table -->", "\n".join(table), s, flags=re.S)
else:
    s = s.rstrip("\n") + "\n\n" + "\n".join(table) + "\n"
open(p, "w").write(s)
print(len(rows), "rows; total wall", sum(int(r.split("|")[2]) for r in rows), "s")
