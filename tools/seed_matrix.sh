#!/bin/bash
# tools/seed_matrix.sh [seed names...]  -- runs every adopted seeded change against the quick check of its
# property (scratch worktree, VERIF_REPO override) and writes seeded/RESULTS.tsv:
#   seed <TAB> property <TAB> caught|MISSED <TAB> unlisted-count <TAB> first fingerprint
set -u
here="$(cd "$(dirname "${BASH_SOURCE[0]}")/.." && pwd)"
cd "$here"
names=("$@"); [ ${#names[@]} -eq 0 ] && names=($(ls seeded | grep -v '\.' | grep -v '^_'))
out="seeded/RESULTS.tsv"; tmp="$(mktemp)"
for n in "${names[@]}"; do
  id="${n%%-*}"
  # seeded/<name>/checks.txt may name the checks to run (default: the check of the property in the name)
  ids="$id"; [ -f "seeded/$n/checks.txt" ] && ids="$(cat "seeded/$n/checks.txt")"
  log="$(./tools/try_seed.sh "$n" $ids 2>&1)"
  unl="$(echo "$log" | grep -oE "unlisted=[0-9]+" | sort -t= -k2 -n | tail -1 | cut -d= -f2)"
  fp="$(echo "$log" | grep -m1 "fingerprint:" | sed 's/.*fingerprint: //')"
  if echo "$log" | grep -q "^VIOLATION property="; then st=caught; else st=MISSED; fi
  printf "%s\t%s\t%s\t%s\t%s\n" "$n" "$id" "$st" "${unl:-?}" "$fp" | tee -a "$tmp"
done
if [ $# -eq 0 ]; then mv "$tmp" "$out"; else cat "$tmp"; rm -f "$tmp"; fi
