#!/bin/bash
# tools/final_evidence.sh : clean replays/, run every quick check on /repo (evidence written), log wall times
cd "$(dirname "${BASH_SOURCE[0]}")/.."
rm -rf replays/*
: > scratch/final_quick.log
for n in $(seq -w 1 35); do
  id="C$n"
  s=$(date +%s)
  timeout 3600 ./check $id --tier quick > scratch/final_$id.log 2>&1
  rc=$?
  echo "$id rc=$rc wall=$(( $(date +%s) - s ))s $(grep -E "^$id tier" scratch/final_$id.log | tail -1 | cut -c1-200)" | tee -a scratch/final_quick.log
done
