#!/venv/bin/python
"""tools/check_baseline.py <junit.xml>: which tests of /root/.vp/BASELINE.json's stable_pass list did not pass?"""
import json
import sys
import xml.etree.ElementTree as ET

base = json.load(open("/root/.vp/BASELINE.json"))
stable = set(base["stable_pass"])
root = ET.parse(sys.argv[1]).getroot()
passed, other = set(), {}
for case in root.iter("testcase"):
    key = f"{case.get('classname')}::{case.get('name')}"
    bad = [c.tag for c in case if c.tag in ("failure", "error", "skipped")]
    if bad:
        other[key] = bad[0]
    else:
        passed.add(key)
missing = sorted(stable - passed)
print(f"stable_pass: {len(stable)}  passed now: {len(passed)}  stable tests not passing: {len(missing)}")
for m in missing[:40]:
    print("  ", other.get(m, "not run"), m)
sys.exit(1 if missing else 0)
