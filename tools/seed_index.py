#!/venv/bin/python
"""Regenerate seeded/INDEX.md from seeded/*/meta.json, seeded/RESULTS.tsv (tools/seed_matrix.sh) and the
hand-written history below (what happened when the change was first tried)."""
import json
import os

HERE = os.path.dirname(os.path.dirname(os.path.abspath(__file__)))
HISTORY = {
    # seed name -> what happened the first time the (then current) check ran against it
    "C33-round-restart-time": "caught outright",
    "C12-suite-mutation-clears-flag": "caught outright",
    "C22-combined-emptied-test-phantom": "caught outright",
    "C15-crossover-drop-cascade": "MISSED at first: crossover parents had no dependency chain of depth >= 3 -> "
                                  "deep-chain parents added to the splice leg",
    "C30-logging-cache-not-cleared": "MISSED at first: snapshot compared manager.disable only -> behavioural "
                                     "snapshot (isEnabledFor per logger x level) and logging.disable ops added",
    "C29-depth-counter-no-finally": "caught outright",
    "C19-dotted-assertion-sources": "MISSED at first: every object had a bare-source assertion too -> "
                                    "assertion-subset variants (all / bare-only / dotted-only)",
    "C32-instance-level-recording-trace": "caught outright",
    "C13-demorgan-candidate-passed": "caught outright",
    "C28-filtered-list-position": "MISSED at first: no module with a None before a node in an AST child list -> "
                                  "kw-only defaults and dict-spread menu items added",
    "C35-annotation-overwrite": "MISSED at first: no line held both a predicate and a branch-less code object's "
                                "first line -> corpus/lambdas.py",
    "C24-raw-assert-bypasses-counter": "caught outright",
    "C05-attribute-hook-no-finally": "caught outright",
    "C18-approx-flag-not-sticky": "MISSED at first: pairs were unordered and drawn by position -> ordered pairs "
                                  "over tests with pairwise different called accessibles",
    "C17-cached-resources-left": "caught outright",
    "C31-trace-rebuilt-from-bindings": "MISSED at first: every statement bound a variable -> population also "
                                       "after remove_unused_variables() (bare raising calls)",
    "C14-remove-while-iterating": "caught outright",
    "C20-complex-nan-guard-hoisted": "caught outright",
    "C26-base-class-cache-tuple": "caught outright",
    "C10-fast-path-before-exclusions": "MISSED at first: restrict() variants never excluded both outcomes of a "
                                       "predicate -> added (what WholeSuite's archive update does)",
    "C02-line-state-across-blocks": "caught outright",
    "C34-stale-positional-index": "MISSED at first: states were read only at the end of a history -> reads "
                                  "(iteration, indexing) after every replayed mutation + positional-view check",
    "C03-untraced-no-finally": "caught outright",
    "C06-reflexive-postdominance-filter": "caught outright",
    "C25-union-member-direction": "MISSED at first: unions only over atoms -> restricted depth-3 family (unions of "
                                  "tuple/list members)",
    "C23-float-render-memoised": "caught outright",
    "C27-ignore-key-mangled-name": "caught outright",
    "C21-killed-includes-timed-out": "caught outright",
    "C04-floor-only-direct-subtraction": "MISSED at first: no unequal numbers of non-subtractable types with the same "
                                         "float image -> Decimal('0.1'), Decimal(2**53+1), Decimal(1)/3, float 0.1",
    "C09-jump-target-cache-by-node": "MISSED at first: callee bodies had no nested control flow -> family D "
                                     "(7 control-flow shapes for f x g x call position)",
    "C16-enum-methods-set-order": "MISSED at first: no corpus Enum had methods -> corpus/enums.py in the grid",
    "C11-merge-shifts-in-place": "caught outright",
    "C29-commonprefix-containment": "MISSED at first: no pre-existing path whose name extends a creatable name -> "
                                    "file 'newer' next to creatable 'new'",
    "C13-shrink-resets-capacity": "caught outright",
    "C32-shared-return-queue": "first run ended as a HARNESS error (schedule replay diverged: one executor was "
                               "shared by all explored schedules) -> fresh executor per schedule; now a clean violation",
    "C30-stale-null-file-local": "caught outright",
    "C05-restore-only-on-exception": "MISSED at first: raising operands raised ValueError only -> SystemExit / "
                                     "BaseException-only operands and context bodies",
    "C12-crossover-shares-tests": "MISSED at first: needs depth 4 from the warm root -> new root state 'two live "
                                  "suites after a crossover between them'",
    "C15-replace-keeps-stale-registry": "caught outright",
    "C22-stale-baseline-across-tests": "caught outright",
    "C06-dedup-by-node": "caught outright",
    "C03-abs-tolerance-zero": "MISSED at first: integer/None/str inputs only -> almost-equal and denormal floats "
                              "in the input menu",
    "C02-last-line-across-traces": "MISSED at first: every program started with 'x = 0' -> raw seeds whose last "
                                   "executed line is the first line of the next call",
    "C17-strict-greater-test-executions": "caught outright",
    "C34-toggle-pass-duplicates": "caught outright",
    "C08-try-clause-lines-merged": "caught outright",
    "C20-composite-flag-name": "caught outright",
    "C14-comparator-cached-per-instance": "caught outright",
    "C28-hom-finish-order": "first run ended as a HARNESS error (AssertionError out of mutation_count was not "
                            "caught) -> exceptions from counting are violations; now clean violations",
    "C35-report-isclose-covered": "MISSED at first: no float predicate missed by a hair -> corpus/floats.py with "
                                  "hand-made near-miss test cases in the pool",
    "C01-nan-guard-before-subtraction": "caught outright",
    "C19-stale-protected-positions": "MISSED at first (ported onto the repaired postprocess.py): no unasserted "
                                     "removable statement in front of asserted redundant ones -> tripled tests with "
                                     "the first copy's assertions dropped",
    "C26-edge-early-return-keeps-distance": "caught outright",
    "C07-relink-skipped-self-edge": "caught outright",
    "C24-nested-class-qualname": "MISSED at first: no value of a nested class -> corpus/nested.py (which also exposed "
                                 "a genuine keyword-rewriting defect of the unchanged parser, fixed in /repo)",
    "C33-sending-end-flag-never-reset": "MISSED at first: the 2-crash runs never reached a second crash (search time "
                                        "used up) -> generous time budget, after-import x2, vacuity guard",
    "C25-maybe-subtype-helper-strict": "MISSED at first: no union nested in the arguments of a non-union type -> "
                                       "tuple[U[a|b]] types",
    "C21-elif-error-after-failed": "MISSED at first: no statement with a failing AND an erroring assertion -> "
                                   "c21_flaky.Thing (value and shape change between executions)",
    "C10-goal-abs-tolerance": "MISSED at first: the smallest positive distance of the trace domain was 0.5 -> 5e-17 added",
    "C27-mangled-owner-underscore": "MISSED at first: no class with an underscore name and a class-private method -> "
                                    "feature 'protcls'",
    "C04-str-bytes-text-branch": "caught outright",
    "C11-analyze-results-shallow-copy": "caught outright",
    "C08-decorated-scope-range": "caught outright",
    "C07-stale-covered-snapshot": "caught outright",
    "C09-control-dependence-cache-by-node": "caught outright",
    "C23-complex-integral-components": "caught outright",
    "C16-exception-import-set-order": "MISSED at first: no module with two custom exceptions -> corpus/excs.py in the grid",
    "C18-private-sut-exception-not-imported": "MISSED at first: no private exception class, and callables beyond the 4 "
                                              "menu indices were never called -> corpus/excs.py, full index menus up to "
                                              "12 alternatives in the pipeline populations",
    "C31-verification-code-cache-by-value": "MISSED at first: no two tests asserting equal values of different types on "
                                            "the same variable name -> corpus/equalish.py",
    "C01-kwnames-line-start-skipped": "caught outright (stdlib leg)",
    "C29-relative-path-cache-key": "caught outright",
    "C34-difference-update-in-place": "MISSED at first: arguments were never views of the receiver itself -> forms "
                                      "self / iter(self) / generator and filter over self",
    "C33-truthiness-restart-gate": "caught outright",
    "C20-negzero-sign-lost-in-merge": "caught outright",
    "C26-distance-visitor-rebinds-subtype": "MISSED at first: no union request whose first member is a parametrised "
                                            "container -> U[list[C0]|C1], hierarchy C2 under C1, second package name "
                                            "(member order of unions follows the string form), cause tag",
    "C13-chop-position-hoisted": "MISSED at first: no SUT whose raising statement moves under mutation -> "
                                 "corpus/shifting.py in the real leg (re-execution oracle)",
    "C06-root-dependence-memo": "MISSED at first: accessors were queried once, in block order -> other query orders on "
                                "fresh CDGs + static seed (cold handler after a loop of tries)",
    "C15-mutate-value-copies-used-vars": "MISSED at first (and for several hours): the factory needs > 3 non-default "
                                         "answers to build a collection next to an in-scope variable, which used up the "
                                         "deviation budget -> hand-written NON-INITIAL roots, positional operations, "
                                         "cold and warmed statement caches (full index menus were added on the way)",
    "C16-static-constants-set-of-paths": "MISSED at first: the module under test was never inside a package -> package "
                                         "cells (sibling modules with constants)",
    "C31-reap-before-recv": "MISSED at first: no result larger than a pipe buffer -> equalish.blob (128 KiB string)",
    "C09-cleanse-on-accumulated-lines": "MISSED at first: the value of the first call never depended on a line that a "
                                        "later call's implicit return None sits on -> family E (every f that calls g x "
                                        "every g that stores the global: state flows across a nested call, then g is "
                                        "called again)",
    "C11-merge-memo-by-id": "MISSED at first: the harness kept every result alive for the whole exploration -> lifetime "
                            "leg (short-lived results analysed, dropped and replaced, all ordered pairs and triples)",
    # wave 10
    "C01-seeding-eq-before-type-guard": "caught outright",
    "C22-minimize-restores-aliased-snapshot": "caught outright",
    "C04-bool-predicate-len-before-bool": "MISSED at first: no user class defined both __bool__ and __len__ -> values "
                                          "whose protocols disagree (bool vs len, == of a str subclass, contains vs "
                                          "iter); these exposed three defects of the unchanged tree (fixed, e9b0615); "
                                          "patch ported to the repaired lines",
    "C08-scope-names-only-stmt-children": "MISSED at first: no definition inside an except handler or a match case -> "
                                          "hand-written module def_in_handler_and_case, selected by name",
    "C10-cache-clone-shares-fitness": "not reported by C10 (its chromosomes are never cloned); it breaks the neighbouring "
                                      "property C12 (a clone's evaluation changes what the original reports), whose check "
                                      "reports it with 37 fingerprints (checks.txt)",
    "C25-orig-bases-inherited": "MISSED at first: generated hierarchies had only plain bases -> generic flavour (Generic[T] "
                                "roots inherited from in parametrised form)",
    "C27-defining-class-via-method-globals": "MISSED at first: no definition wrapped by a decorator of another module -> "
                                             "feature foreigndeco (functools.wraps decorator of the helper module, "
                                             "contextlib.contextmanager)",
}


def main():
    results = {}
    p = os.path.join(HERE, "seeded", "RESULTS.tsv")
    if os.path.exists(p):
        for line in open(p):
            f = line.rstrip("\n").split("\t")
            if len(f) >= 5:
                results[f[0]] = f
    names = sorted(d for d in os.listdir(os.path.join(HERE, "seeded"))
                   if os.path.isdir(os.path.join(HERE, "seeded", d)) and not d.startswith("_"))
    out = ["# Seeded property-breaking changes", "",
           "Each directory holds `patch.diff` (against /repo HEAD at adoption), the seeder's stand-alone",
           "demonstration and `meta.json`. The changes were written by fresh sub-agents that saw only the",
           "property text and a scratch worktree; I confirmed for each that the demonstration fails with the",
           "change and passes without it (`tools/adopt_seed.sh`) and that the repository's related tests pass",
           "with it (`tools/seed_tests.sh`). `tools/try_seed.sh <name> <ID>` runs a check against a change in a",
           "scratch worktree (VERIF_REPO override); `tools/seed_matrix.sh` does that for all of them and writes",
           "`RESULTS.tsv` (last column: first fingerprint reported). Nothing here is ever applied to /repo.", "",
           f"{len(names)} changes; current state of the quick checks against them:", "",
           "| change | property | needs, in order to manifest | first run | now (quick tier) |",
           "|---|---|---|---|---|"]
    for n in names:
        meta = {}
        try:
            meta = json.load(open(os.path.join(HERE, "seeded", n, "meta.json")))
        except Exception:  # noqa: BLE001
            pass
        needs = " ".join(str(meta.get("needs_to_manifest", "")).split())
        if len(needs) > 330:
            needs = needs[:327] + "..."
        needs = needs.replace("|", "\\|")
        r = results.get(n)
        now = f"{r[2]} ({r[3]} fingerprints, e.g. `{r[4]}`)".replace("|", "\\|") if r else "not in RESULTS.tsv yet"
        out.append(f"| {n} | {n.split('-')[0]} | {needs} | {HISTORY.get(n, '?')} | {now} |")
    open(os.path.join(HERE, "seeded", "INDEX.md"), "w").write("\n".join(out) + "\n")
    print(f"{len(names)} seeds indexed")


if __name__ == "__main__":
    main()
