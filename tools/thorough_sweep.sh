#!/bin/bash
# tools/thorough_sweep.sh <ids...> : thorough tier of each check, sequentially, no evidence, logs in scratch/thorough
cd "$(dirname "${BASH_SOURCE[0]}")/.."
mkdir -p scratch/thorough
for id in "$@"; do
  s=$(date +%s)
  timeout ${TMO:-5400} ./check $id --tier thorough --no-evidence > scratch/thorough/$id.log 2>&1
  rc=$?
  echo "$id rc=$rc wall=$(( $(date +%s) - s ))s $(grep -E "^$id tier" scratch/thorough/$id.log | tail -1 | cut -c1-220)" >> scratch/thorough/SUMMARY.txt
done
