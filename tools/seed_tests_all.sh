#!/bin/bash
# run the repository's tests of the touched package(s) against every adopted seeded change -> seeded/TESTS.tsv
cd "$(dirname "${BASH_SOURCE[0]}")/.."
out=seeded/TESTS.tsv; : > "$out.tmp"
for n in $(ls seeded | grep -v '\.' | grep -v '^_'); do
  paths=$(grep '^+++ b/src/pynguin/' seeded/$n/patch.diff | sed 's#+++ b/src/pynguin/##' | while read f; do
     d=$(dirname "$f"); top=${d%%/*}
     case "$top" in
       .) echo "tests/test_generator.py";;
       large_language_model) echo "tests/large_language_model/parsing";;
       *) [ -d /repo/tests/$top ] && echo "tests/$top";;
     esac; done | sort -u | tr '\n' ' ')
  res=$(nice -n 5 ./tools/seed_tests.sh "$n" $paths 2>&1 | tail -1)
  printf "%s\t%s\t%s\n" "$n" "$paths" "$res" | tee -a "$out.tmp"
done
mv "$out.tmp" "$out"
