#!/bin/bash
# tools/seed_tests.sh <seed name> <pytest paths...> : run the repository's own tests with the seeded change applied
set -u
name="$1"; shift
here="$(cd "$(dirname "${BASH_SOURCE[0]}")/.." && pwd)"
wt="/tmp/tst_${name}_$$"
git -C /repo worktree add -q "$wt" HEAD || exit 2
git -C "$wt" apply "$here/seeded/$name/patch.diff" || { git -C /repo worktree remove --force "$wt"; exit 2; }
(cd "$wt" && env -u PYNGUIN_VERIF PYTHONPATH="$wt/src" timeout 3000 /venv/bin/python -m pytest -q -p no:cacheprovider -p no:sugar --timeout=900 --deselect tests/testcase/execution/test_subprocesstestcaseexecutor.py::test_auxiliary_executor_survives_sut_code_run_while_unpickling_results "$@" tests/test_generator.py 2>&1 | tail -3)
git -C /repo worktree remove --force "$wt"
