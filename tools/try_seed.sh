#!/bin/bash
# tools/try_seed.sh <seed-dir-name> <check-id> [more check ids]
# Applies seeded/<name>/patch.diff to a scratch worktree of /repo HEAD, runs the checks against it
# (VERIF_REPO override, no evidence written) and removes the worktree again.
set -u
name="$1"; shift
here="$(cd "$(dirname "${BASH_SOURCE[0]}")/.." && pwd)"
wt="/tmp/try_${name}_$$"
git -C /repo worktree add -q "$wt" HEAD || exit 2
if ! git -C "$wt" apply "$here/seeded/$name/patch.diff"; then
  echo "PATCH DOES NOT APPLY"; git -C /repo worktree remove --force "$wt"; exit 2
fi
rc=0
for id in "$@"; do
  echo "=== $id against seeded/$name"
  VERIF_REPLAYS="$wt/.verif_replays" VERIF_REPO="$wt" timeout 3000 "$here/check" "$id" --tier "${TIER:-quick}" --no-evidence 2>&1 \
     | grep -v "Experienced timeout\|Timeout occurred" | grep -E "VIOLATION|fingerprint|KNOWN-FINDING|HARNESS|^C[0-9]+ tier" | cut -c1-260
done
git -C /repo worktree remove --force "$wt"
