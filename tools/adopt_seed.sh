#!/bin/bash
# tools/adopt_seed.sh <seed worktree> <name> <demo file> : copy a seeded change into /verif/seeded/<name>
# and confirm the demonstration (fails with the change, passes without) in a fresh scratch worktree.
set -u
wt="$1"; name="$2"; demo="$3"
here="$(cd "$(dirname "${BASH_SOURCE[0]}")/.." && pwd)"
mkdir -p "$here/seeded/$name"
git -C "$wt" diff -- src > "$here/seeded/$name/patch.diff"
cp "$wt/$demo" "$here/seeded/$name/" 2>/dev/null
cp "$wt/meta.json" "$here/seeded/$name/meta.json" 2>/dev/null
scratch="/tmp/adopt_${name}_$$"
git -C /repo worktree add -q "$scratch" HEAD || exit 2
cp "$wt/$demo" "$scratch/"
run_demo() { (cd "$scratch" && if grep -q "^def test_\|^import pytest\|^    def test_" "$demo"; then PYTHONPATH="$scratch/src" timeout 900 /venv/bin/python -m pytest -q -p no:cacheprovider -p no:sugar "$demo" >/dev/null 2>&1; else PYTHONPATH="$scratch/src" timeout 900 /venv/bin/python "$demo" >/dev/null 2>&1; fi; echo $?); }
without=$(run_demo)
git -C "$scratch" apply "$here/seeded/$name/patch.diff" || { echo "patch does not apply to HEAD"; git -C /repo worktree remove --force "$scratch"; exit 2; }
with=$(run_demo)
echo "demo exit without change: $without ; with change: $with"
git -C /repo worktree remove --force "$scratch"
